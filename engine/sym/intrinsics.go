package sym

import (
	"fmt"
	"go/types"
	"math"
	"net"
	"path/filepath"
	"strconv"
	"strings"

	"golang.org/x/tools/go/ssa"
)

type rtTypes struct {
	errorString types.Type // *errors.errorString
	wrapError   types.Type // *fmt.wrapError
	wrapErrors  types.Type // *fmt.wrapErrors
	errorIface  *types.Interface
}

func (e *Engine) initRT() {
	if p := e.Prog.ImportedPackage("errors"); p != nil {
		if t := p.Type("errorString"); t != nil {
			e.rtTypes.errorString = types.NewPointer(t.Type())
		}
	}
	if p := e.Prog.ImportedPackage("fmt"); p != nil {
		if t := p.Type("wrapError"); t != nil {
			e.rtTypes.wrapError = types.NewPointer(t.Type())
		}
		if t := p.Type("wrapErrors"); t != nil {
			e.rtTypes.wrapErrors = types.NewPointer(t.Type())
		}
	}
	e.rtTypes.errorIface = types.Universe.Lookup("error").Type().Underlying().(*types.Interface)
}

// newError builds an error value of dynamic type *errors.errorString.
func (e *Engine) newError(msg Str) Value {
	a := new(Value)
	*a = Struct{msg}
	return Iface{T: e.rtTypes.errorString, V: a}
}

func (e *Engine) runtimeError(msg string) Value {
	return e.newError(Str{S: msg})
}

var intrinsics = map[string]intrinsicFn{}

func reg(name string, f intrinsicFn) { intrinsics[name] = f }

func strArg(v Value) Str { return v.(Str) }

func bytesOf(v Value) []*Term {
	switch v := v.(type) {
	case Str:
		return v.Bytes()
	case []Value:
		out := make([]*Term, len(v))
		for i, b := range v {
			out[i] = b.(*Term)
		}
		return out
	}
	panic(fmt.Sprintf("bytesOf %T", v))
}

func intV(n int64) *Term { return BV(64, uint64(n)) }

// SlicePtr / StrPtr model unsafe.SliceData / unsafe.StringData results.
type SlicePtr struct{ s []Value }
type StrPtr struct{ s Str }

func init() {
	// ---- internal/bytealg ----
	indexByte := func(th *Thread, fr *frame, fn *ssa.Function, args []Value) Value {
		b := bytesOf(args[0])
		c := args[1].(*Term)
		for i, x := range b {
			if th.p.branch(Eq(x, c)) {
				return intV(int64(i))
			}
		}
		return intV(-1)
	}
	lastIndexByte := func(th *Thread, fr *frame, fn *ssa.Function, args []Value) Value {
		b := bytesOf(args[0])
		c := args[1].(*Term)
		for i := len(b) - 1; i >= 0; i-- {
			if th.p.branch(Eq(b[i], c)) {
				return intV(int64(i))
			}
		}
		return intV(-1)
	}
	reg("internal/bytealg.IndexByte", indexByte)
	reg("internal/bytealg.IndexByteString", indexByte)
	reg("internal/bytealg.LastIndexByte", lastIndexByte)
	reg("internal/bytealg.LastIndexByteString", lastIndexByte)
	count := func(th *Thread, fr *frame, fn *ssa.Function, args []Value) Value {
		b := bytesOf(args[0])
		c := args[1].(*Term)
		n := BV(64, 0)
		for _, x := range b {
			n = Bin(OpAdd, n, Ite(Eq(x, c), BV(64, 1), BV(64, 0)))
		}
		return n
	}
	reg("internal/bytealg.Count", count)
	reg("internal/bytealg.CountString", count)
	reg("internal/bytealg.Equal", func(th *Thread, fr *frame, fn *ssa.Function, args []Value) Value {
		a, b := bytesOf(args[0]), bytesOf(args[1])
		if len(a) != len(b) {
			return FalseT
		}
		r := TrueT
		for i := range a {
			r = And(r, Eq(a[i], b[i]))
		}
		return r
	})
	reg("bytes.Equal", intrinsics["internal/bytealg.Equal"])
	reg("internal/bytealg.Compare", func(th *Thread, fr *frame, fn *ssa.Function, args []Value) Value {
		a, b := mkStr(bytesOf(args[0])), mkStr(bytesOf(args[1]))
		lt := strLess(a, b, false)
		eq := eqTerm(a, b)
		return Ite(lt, BV(64, ^uint64(0)), Ite(eq, BV(64, 0), BV(64, 1)))
	})
	index := func(th *Thread, fr *frame, fn *ssa.Function, args []Value) Value {
		a, b := bytesOf(args[0]), bytesOf(args[1])
		n := len(b)
		for i := 0; i+n <= len(a); i++ {
			m := TrueT
			for j := 0; j < n; j++ {
				m = And(m, Eq(a[i+j], b[j]))
			}
			if th.p.branch(m) {
				return intV(int64(i))
			}
		}
		return intV(-1)
	}
	reg("internal/bytealg.Index", index)
	reg("internal/bytealg.IndexString", index)
	reg("strings.Index", index)
	reg("bytes.Index", index)
	reg("internal/bytealg.Cutover", func(th *Thread, fr *frame, fn *ssa.Function, args []Value) Value {
		return intV(1 << 30)
	})
	reg("internal/bytealg.MakeNoZero", func(th *Thread, fr *frame, fn *ssa.Function, args []Value) Value {
		n := th.concInt(args[0])
		s := make([]Value, n)
		for i := range s {
			s[i] = BV(8, 0)
		}
		return s
	})
	reg("internal/abi.NoEscape", func(th *Thread, fr *frame, fn *ssa.Function, args []Value) Value { return args[0] })
	reg("internal/abi.Escape", func(th *Thread, fr *frame, fn *ssa.Function, args []Value) Value { return args[0] })
	reg("strings.(*Builder).copyCheck", func(th *Thread, fr *frame, fn *ssa.Function, args []Value) Value { return nil })
	reg("internal/stringslite.Clone", func(th *Thread, fr *frame, fn *ssa.Function, args []Value) Value { return args[0] })
	reg("strings.Clone", func(th *Thread, fr *frame, fn *ssa.Function, args []Value) Value { return args[0] })
	reg("internal/godebug.(*Setting).Value", func(th *Thread, fr *frame, fn *ssa.Function, args []Value) Value { return Str{} })
	reg("internal/godebug.(*Setting).IncNonDefault", func(th *Thread, fr *frame, fn *ssa.Function, args []Value) Value { return nil })
	reg("internal/race.Acquire", nop)
	reg("internal/race.Release", nop)
	reg("internal/race.ReleaseMerge", nop)
	reg("internal/race.Disable", nop)
	reg("internal/race.Enable", nop)
	reg("internal/race.Read", nop)
	reg("internal/race.Write", nop)
	reg("internal/race.ReadRange", nop)
	reg("internal/race.WriteRange", nop)

	// ---- runtime ----
	reg("runtime.Gosched", func(th *Thread, fr *frame, fn *ssa.Function, args []Value) Value {
		th.schedPoint(nil, "Gosched")
		return nil
	})
	for _, n := range []string{"runtime.GC", "runtime.KeepAlive", "runtime.SetFinalizer", "runtime/debug.FreeOSMemory", "runtime/debug.PrintStack"} {
		reg(n, nop)
	}
	reg("runtime/debug.Stack", func(th *Thread, fr *frame, fn *ssa.Function, args []Value) Value {
		return []Value{}
	})
	reg("runtime.NumGoroutine", func(th *Thread, fr *frame, fn *ssa.Function, args []Value) Value { return intV(1) })
	reg("runtime.NumCPU", func(th *Thread, fr *frame, fn *ssa.Function, args []Value) Value { return intV(4) })
	reg("runtime.GOMAXPROCS", func(th *Thread, fr *frame, fn *ssa.Function, args []Value) Value { return intV(4) })
	reg("runtime.Caller", func(th *Thread, fr *frame, fn *ssa.Function, args []Value) Value {
		return Tuple{BV(64, 0), Str{S: "?"}, intV(0), FalseT}
	})
	reg("runtime.Callers", func(th *Thread, fr *frame, fn *ssa.Function, args []Value) Value { return intV(0) })
	reg("os.Getenv", func(th *Thread, fr *frame, fn *ssa.Function, args []Value) Value { return Str{} })
	reg("os.LookupEnv", func(th *Thread, fr *frame, fn *ssa.Function, args []Value) Value { return Tuple{Str{}, FalseT} })
	reg("os.Getpid", func(th *Thread, fr *frame, fn *ssa.Function, args []Value) Value { return intV(4242) })
	reg("os.Hostname", func(th *Thread, fr *frame, fn *ssa.Function, args []Value) Value {
		return Tuple{Str{S: "verif.invalid"}, Iface{}}
	})

	// ---- math ----
	m1 := func(name string, f func(float64) float64) {
		reg(name, func(th *Thread, fr *frame, fn *ssa.Function, args []Value) Value {
			if _, ok := args[0].(OpaqueFloat); ok {
				return OpaqueFloat{}
			}
			return f(args[0].(float64))
		})
	}
	m1("math.Abs", math.Abs)
	m1("math.Floor", math.Floor)
	m1("math.Ceil", math.Ceil)
	m1("math.Trunc", math.Trunc)
	m1("math.Sqrt", math.Sqrt)
	m1("math.Log", math.Log)
	m1("math.Log2", math.Log2)
	m1("math.Log10", math.Log10)
	m1("math.Exp", math.Exp)
	m1("math.Round", math.Round)
	reg("math.Pow", func(th *Thread, fr *frame, fn *ssa.Function, args []Value) Value {
		x, ok1 := args[0].(float64)
		y, ok2 := args[1].(float64)
		if !ok1 || !ok2 {
			return OpaqueFloat{}
		}
		return math.Pow(x, y)
	})
	reg("math.Mod", func(th *Thread, fr *frame, fn *ssa.Function, args []Value) Value {
		return math.Mod(args[0].(float64), args[1].(float64))
	})
	reg("math.Float64bits", func(th *Thread, fr *frame, fn *ssa.Function, args []Value) Value {
		return BV(64, math.Float64bits(args[0].(float64)))
	})
	reg("math.Float64frombits", func(th *Thread, fr *frame, fn *ssa.Function, args []Value) Value {
		return math.Float64frombits(uint64(th.concInt(args[0])))
	})
	reg("math.Float32bits", func(th *Thread, fr *frame, fn *ssa.Function, args []Value) Value {
		return BV(32, uint64(math.Float32bits(float32(args[0].(float64)))))
	})
	reg("math.Float32frombits", func(th *Thread, fr *frame, fn *ssa.Function, args []Value) Value {
		return float64(math.Float32frombits(uint32(th.concInt(args[0]))))
	})

	// ---- unicode/utf8 ----
	reg("unicode/utf8.DecodeRuneInString", func(th *Thread, fr *frame, fn *ssa.Function, args []Value) Value {
		r, n := th.decodeRune(args[0].(Str), 0)
		return Tuple{r, intV(int64(n))}
	})
	reg("unicode/utf8.DecodeRune", func(th *Thread, fr *frame, fn *ssa.Function, args []Value) Value {
		r, n := th.decodeRune(mkStrSym(bytesOf(args[0])), 0)
		return Tuple{r, intV(int64(n))}
	})

	// ---- unique (interning): handles are equal iff the values are ----
	reg("unique.Make", func(th *Thread, fr *frame, fn *ssa.Function, args []Value) Value {
		w := th.p.w
		k, ok := concreteKey(args[0])
		if !ok {
			panic(unsupported{"unique.Make on a symbolic value"})
		}
		k = fn.String() + "|" + k
		if w.interned == nil {
			w.interned = map[string]*Value{}
		}
		p, ok := w.interned[k]
		if !ok {
			p = new(Value)
			*p = copyVal(args[0])
			w.interned[k] = p
		}
		return Struct{p}
	})
	reg("net.IPv4", func(th *Thread, fr *frame, fn *ssa.Function, args []Value) Value {
		out := make([]Value, 16)
		for i := range out {
			out[i] = BV(8, 0)
		}
		out[10], out[11] = BV(8, 0xff), BV(8, 0xff)
		for i := 0; i < 4; i++ {
			out[12+i] = args[i]
		}
		return out
	})
	reg("net.JoinHostPort", func(th *Thread, fr *frame, fn *ssa.Function, args []Value) Value {
		h, p := args[0].(Str), args[1].(Str)
		if h.B != nil || p.B != nil {
			panic(unsupported{"net.JoinHostPort on symbolic strings"})
		}
		return Str{S: net.JoinHostPort(h.S, p.S)}
	})
	reg("net.ParseIP", func(th *Thread, fr *frame, fn *ssa.Function, args []Value) Value {
		h := args[0].(Str)
		if h.B != nil {
			panic(unsupported{"net.ParseIP on a symbolic string"})
		}
		ip := net.ParseIP(h.S)
		if ip == nil {
			return []Value(nil)
		}
		out := make([]Value, len(ip))
		for i, b := range ip {
			out[i] = BV(8, uint64(b))
		}
		return out
	})
	reg("net.IP.String", func(th *Thread, fr *frame, fn *ssa.Function, args []Value) Value {
		b, ok := args[0].([]Value)
		if !ok {
			return Str{S: "<nil>"}
		}
		raw := make([]byte, len(b))
		for i, x := range b {
			t := x.(*Term)
			if t.Op != OpConst {
				panic(unsupported{"net.IP.String on symbolic bytes"})
			}
			raw[i] = byte(t.Val)
		}
		return Str{S: net.IP(raw).String()}
	})
	reg("(net.IP).String", intrinsics["net.IP.String"])

	// ---- strconv on symbolic integers: opaque text (digits are never the subject) ----
	for _, n := range []string{"strconv.FormatInt", "strconv.FormatUint", "strconv.Itoa"} {
		name := n
		reg(name, func(th *Thread, fr *frame, fn *ssa.Function, args []Value) Value {
			t := args[0].(*Term)
			if t.Op != OpConst {
				th.p.w.res.Intrinsics["strconv: symbolic integer rendered opaquely"]++
				return Str{S: "‹n›"}
			}
			base := 10
			if len(args) > 1 {
				base = int(th.concInt(args[1]))
			}
			if name == "strconv.FormatUint" {
				return Str{S: strconv.FormatUint(t.Val, base)}
			}
			return Str{S: strconv.FormatInt(t.SInt(), base)}
		})
	}

	// ---- sort ----
	reg("sort.Slice", sortSlice)
	reg("sort.SliceStable", sortSlice)

	// ---- errors ----
	reg("errors.Is", errorsIs)
	reg("errors.As", errorsAs)

	// ---- sync ----
	reg("(*sync.Mutex).Lock", func(th *Thread, fr *frame, fn *ssa.Function, args []Value) Value {
		a := args[0].(*Value)
		s := th.p.sync(a)
		th.schedPoint(func() bool { return !s.locked }, "Mutex.Lock")
		s.locked = true
		s.owner = th.id
		return nil
	})
	reg("(*sync.Mutex).TryLock", func(th *Thread, fr *frame, fn *ssa.Function, args []Value) Value {
		s := th.p.sync(args[0].(*Value))
		th.schedPoint(nil, "Mutex.TryLock")
		if s.locked {
			return FalseT
		}
		s.locked = true
		return TrueT
	})
	reg("(*sync.Mutex).Unlock", func(th *Thread, fr *frame, fn *ssa.Function, args []Value) Value {
		s := th.p.sync(args[0].(*Value))
		if !s.locked {
			th.fatal("sync: unlock of unlocked mutex")
		}
		s.locked = false
		return nil
	})
	reg("(*sync.RWMutex).Lock", func(th *Thread, fr *frame, fn *ssa.Function, args []Value) Value {
		s := th.p.sync(args[0].(*Value))
		th.schedPoint(func() bool { return !s.locked && s.readers == 0 }, "RWMutex.Lock")
		s.locked = true
		return nil
	})
	reg("(*sync.RWMutex).Unlock", func(th *Thread, fr *frame, fn *ssa.Function, args []Value) Value {
		s := th.p.sync(args[0].(*Value))
		if !s.locked {
			th.fatal("sync: Unlock of unlocked RWMutex")
		}
		s.locked = false
		return nil
	})
	reg("(*sync.RWMutex).RLock", func(th *Thread, fr *frame, fn *ssa.Function, args []Value) Value {
		s := th.p.sync(args[0].(*Value))
		th.schedPoint(func() bool { return !s.locked }, "RWMutex.RLock")
		s.readers++
		return nil
	})
	reg("(*sync.RWMutex).RUnlock", func(th *Thread, fr *frame, fn *ssa.Function, args []Value) Value {
		s := th.p.sync(args[0].(*Value))
		if s.readers <= 0 {
			th.fatal("sync: RUnlock of unlocked RWMutex")
		}
		s.readers--
		return nil
	})
	reg("(*sync.WaitGroup).Add", func(th *Thread, fr *frame, fn *ssa.Function, args []Value) Value {
		s := th.p.sync(args[0].(*Value))
		s.counter += th.concInt(args[1])
		if s.counter < 0 {
			th.goPanicStr("sync: negative WaitGroup counter")
		}
		return nil
	})
	reg("(*sync.WaitGroup).Done", func(th *Thread, fr *frame, fn *ssa.Function, args []Value) Value {
		s := th.p.sync(args[0].(*Value))
		s.counter--
		if s.counter < 0 {
			th.goPanicStr("sync: negative WaitGroup counter")
		}
		return nil
	})
	reg("(*sync.WaitGroup).Wait", func(th *Thread, fr *frame, fn *ssa.Function, args []Value) Value {
		s := th.p.sync(args[0].(*Value))
		th.schedPoint(func() bool { return s.counter == 0 }, "WaitGroup.Wait")
		return nil
	})
	reg("(*sync.Once).Do", func(th *Thread, fr *frame, fn *ssa.Function, args []Value) Value {
		s := th.p.sync(args[0].(*Value))
		if s.onceDone {
			return nil
		}
		th.schedPoint(func() bool { return !s.onceRun || s.onceDone }, "Once.Do")
		if s.onceDone {
			return nil
		}
		s.onceRun = true
		defer func() { s.onceDone = true }()
		th.call(fr, args[1], nil)
		return nil
	})
	reg("(*sync.Pool).Get", func(th *Thread, fr *frame, fn *ssa.Function, args []Value) Value {
		pool := *(args[0].(*Value))
		st := pool.(Struct)
		newf := st[len(st)-1]
		if isNilValue(newf) {
			return Iface{}
		}
		return th.call(fr, newf, nil)
	})
	reg("(*sync.Pool).Put", nop)

	// ---- sync/atomic ----
	for _, w := range []string{"Int32", "Int64", "Uint32", "Uint64", "Uintptr"} {
		reg("sync/atomic.Load"+w, atomicLoad)
		reg("sync/atomic.Store"+w, atomicStore)
		reg("sync/atomic.Add"+w, atomicAdd)
		reg("sync/atomic.Swap"+w, atomicSwap)
		reg("sync/atomic.CompareAndSwap"+w, atomicCAS)
		reg("sync/atomic.And"+w, atomicAndOr(OpBAnd))
		reg("sync/atomic.Or"+w, atomicAndOr(OpBOr))
	}
	reg("sync/atomic.LoadPointer", atomicLoad)
	reg("sync/atomic.StorePointer", atomicStore)
	reg("sync/atomic.SwapPointer", atomicSwap)
	reg("sync/atomic.CompareAndSwapPointer", atomicCAS)
	reg("(*sync/atomic.Value).Load", func(th *Thread, fr *frame, fn *ssa.Function, args []Value) Value {
		th.schedPoint(nil, "atomic.Value.Load")
		a := args[0].(*Value)
		return (*a).(Struct)[0]
	})
	reg("(*sync/atomic.Value).Store", func(th *Thread, fr *frame, fn *ssa.Function, args []Value) Value {
		th.schedPoint(nil, "atomic.Value.Store")
		a := args[0].(*Value)
		if args[1].(Iface).T == nil {
			th.goPanicStr("sync/atomic: store of nil value into Value")
		}
		th.p.w.store(&(*a).(Struct)[0], args[1])
		return nil
	})
	reg("(*sync/atomic.Value).Swap", func(th *Thread, fr *frame, fn *ssa.Function, args []Value) Value {
		th.schedPoint(nil, "atomic.Value.Swap")
		a := args[0].(*Value)
		old := (*a).(Struct)[0]
		th.p.w.store(&(*a).(Struct)[0], args[1])
		return old
	})
}

func nop(th *Thread, fr *frame, fn *ssa.Function, args []Value) Value {
	return zeroResults(fn.Signature)
}

func mkStrSym(b []*Term) Str {
	s := mkStr(b)
	return s
}

// fatal raises an unrecoverable runtime error (a violation of "never crashes").
func (th *Thread) fatal(msg string) {
	panic(&GoPanic{val: th.p.eng.runtimeError("fatal error: " + msg), where: th.stackTrace(), fatal: true})
}

func atomicLoad(th *Thread, fr *frame, fn *ssa.Function, args []Value) Value {
	th.schedPoint(nil, "atomic.Load")
	return th.load(fr, args[0])
}

func atomicStore(th *Thread, fr *frame, fn *ssa.Function, args []Value) Value {
	th.schedPoint(nil, "atomic.Store")
	th.storeTo(args[0], args[1])
	return nil
}

func atomicAdd(th *Thread, fr *frame, fn *ssa.Function, args []Value) Value {
	th.schedPoint(nil, "atomic.Add")
	nv := Bin(OpAdd, th.load(fr, args[0]).(*Term), args[1].(*Term))
	th.storeTo(args[0], nv)
	return nv
}

func atomicAndOr(op Op) intrinsicFn {
	return func(th *Thread, fr *frame, fn *ssa.Function, args []Value) Value {
		th.schedPoint(nil, "atomic.And/Or")
		old := th.load(fr, args[0]).(*Term)
		th.storeTo(args[0], Bin(op, old, args[1].(*Term)))
		return old
	}
}

func atomicSwap(th *Thread, fr *frame, fn *ssa.Function, args []Value) Value {
	th.schedPoint(nil, "atomic.Swap")
	old := th.load(fr, args[0])
	th.storeTo(args[0], args[1])
	return old
}

func atomicCAS(th *Thread, fr *frame, fn *ssa.Function, args []Value) Value {
	th.schedPoint(nil, "atomic.CAS")
	old := th.load(fr, args[0])
	if th.p.branch(eqTerm(old, args[1])) {
		th.storeTo(args[0], args[2])
		return TrueT
	}
	return FalseT
}

func sortSlice(th *Thread, fr *frame, fn *ssa.Function, args []Value) Value {
	s, _ := args[0].(Iface).V.([]Value)
	less := args[1]
	// insertion sort driven by the interpreted less(i, j); swaps elements in place
	for i := 1; i < len(s); i++ {
		for j := i; j > 0; j-- {
			r := th.call(fr, less, []Value{intV(int64(j)), intV(int64(j - 1))}).(*Term)
			if !th.p.branch(r) {
				break
			}
			a, b := copyVal(s[j]), copyVal(s[j-1])
			th.p.w.store(&s[j], b)
			th.p.w.store(&s[j-1], a)
		}
	}
	return nil
}

// unwrapErr returns the errors directly wrapped by err (via Unwrap() error or Unwrap() []error).
func (th *Thread) unwrapErr(fr *frame, err Iface) []Iface {
	m := th.p.eng.lookupMethodByName(err.T, "Unwrap")
	if m == nil {
		return nil
	}
	res := m.Signature.Results()
	if res.Len() != 1 || m.Signature.Params().Len() != 0 {
		return nil
	}
	r := th.callFn(fr, m, []Value{err.V}, nil)
	switch r := r.(type) {
	case Iface:
		if r.T == nil {
			return nil
		}
		return []Iface{r}
	case []Value:
		var out []Iface
		for _, x := range r {
			if xi := x.(Iface); xi.T != nil {
				out = append(out, xi)
			}
		}
		return out
	}
	return nil
}

func isComparableType(t types.Type) bool { return types.Comparable(t) }

func errorsIs(th *Thread, fr *frame, fn *ssa.Function, args []Value) Value {
	err, target := args[0].(Iface), args[1].(Iface)
	if err.T == nil || target.T == nil {
		return Bool(err.T == nil && target.T == nil)
	}
	return Bool(th.errIs(fr, err, target, 0))
}

func (th *Thread) errIs(fr *frame, err, target Iface, depth int) bool {
	if depth > 50 {
		panic(boundExceeded{"error chain depth"})
	}
	if isComparableType(target.T) && err.T != nil && types.Identical(err.T, target.T) {
		if th.p.branch(eqTerm(err.V, target.V)) {
			return true
		}
	}
	if m := th.p.eng.lookupMethodByName(err.T, "Is"); m != nil && m.Signature.Params().Len() == 1 && m.Signature.Results().Len() == 1 {
		if _, ok := m.Signature.Params().At(0).Type().Underlying().(*types.Interface); ok {
			r := th.callFn(fr, m, []Value{err.V, target}, nil).(*Term)
			if th.p.branch(r) {
				return true
			}
		}
	}
	for _, inner := range th.unwrapErr(fr, err) {
		if th.errIs(fr, inner, target, depth+1) {
			return true
		}
	}
	return false
}

func errorsAs(th *Thread, fr *frame, fn *ssa.Function, args []Value) Value {
	err, target := args[0].(Iface), args[1].(Iface)
	if target.T == nil {
		th.goPanicStr("errors: target cannot be nil")
	}
	pt, ok := target.T.Underlying().(*types.Pointer)
	if !ok {
		th.goPanicStr("errors: target must be a non-nil pointer")
	}
	if err.T == nil {
		return FalseT
	}
	return Bool(th.errAs(fr, err, target.V, pt.Elem(), 0))
}

func (th *Thread) errAs(fr *frame, err Iface, target Value, tt types.Type, depth int) bool {
	if depth > 50 {
		panic(boundExceeded{"error chain depth"})
	}
	if it, isI := tt.Underlying().(*types.Interface); isI {
		if types.Implements(err.T, it) {
			th.storeTo(target, err)
			return true
		}
	} else if types.Identical(err.T, tt) {
		th.storeTo(target, err.V)
		return true
	}
	if m := th.p.eng.lookupMethodByName(err.T, "As"); m != nil && m.Signature.Params().Len() == 1 && m.Signature.Results().Len() == 1 {
		r := th.callFn(fr, m, []Value{err.V, Iface{T: types.NewPointer(tt), V: target}}, nil).(*Term)
		if th.p.branch(r) {
			return true
		}
	}
	for _, inner := range th.unwrapErr(fr, err) {
		if th.errAs(fr, inner, target, tt, depth+1) {
			return true
		}
	}
	return false
}

// ---- harness runtime (nondet*, verif*) ----

func harnessIntrinsic(fn *ssa.Function) intrinsicFn {
	if fn.Prog == nil || !fn.Pos().IsValid() {
		return nil
	}
	name := fn.Name()
	if !strings.HasPrefix(name, "nondet") && !strings.HasPrefix(name, "verif") {
		return nil
	}
	file := filepath.Base(fn.Prog.Fset.Position(fn.Pos()).Filename)
	if !strings.HasPrefix(file, "zz_verif_rt") {
		return nil
	}
	if f, ok := harnessRT[name]; ok {
		return f
	}
	return nil
}

func (p *Path) ndName(th *Thread, v Value) string {
	s := v.(Str)
	if s.B != nil {
		panic(unsupported{"symbolic nondet name"})
	}
	k := p.ndCount[s.S]
	p.ndCount[s.S] = k + 1
	return fmt.Sprintf("%s#%d", s.S, k)
}

func (p *Path) newNondet(name string, w uint8) *Term {
	v := NewVar(name, w)
	p.nondet = append(p.nondet, v)
	return v
}

// Randomness returns an arbitrary value of its range (not replayable natively;
// the harnesses that reach it do not let the outcome depend on it).
func init() {
	for _, n := range []string{"math/rand.Intn", "math/rand.Int63n", "math/rand.Int31n"} {
		reg(n, func(th *Thread, fr *frame, fn *ssa.Function, args []Value) Value {
			n := args[0].(*Term)
			k := th.p.ndCount["math/rand"]
			th.p.ndCount["math/rand"] = k + 1
			v := NewVar(fmt.Sprintf("math/rand#%d", k), n.W)
			th.p.assume(Cmp(OpSle, BV(n.W, 0), v))
			th.p.assume(Cmp(OpSlt, v, n))
			th.p.w.res.Intrinsics["math/rand: arbitrary value"]++
			return v
		})
	}
}

var harnessRT map[string]intrinsicFn

func init() {
	harnessRT = map[string]intrinsicFn{
		"nondetBool": func(th *Thread, fr *frame, fn *ssa.Function, args []Value) Value {
			return th.p.newNondet(th.p.ndName(th, args[0]), 0)
		},
		"nondetInt": func(th *Thread, fr *frame, fn *ssa.Function, args []Value) Value {
			p := th.p
			lo, hi := args[1].(*Term), args[2].(*Term)
			if lo.Op == OpConst && hi.Op == OpConst && lo.SInt() >= 0 && hi.SInt() < 1<<15 && lo.SInt() <= hi.SInt() {
				// small non-negative range: a narrow variable, zero-extended
				w := uint8(16)
				if hi.SInt() < 1<<7 {
					w = 8
				}
				nv := p.newNondet(p.ndName(th, args[0]), w)
				p.assume(Cmp(OpUle, BV(w, lo.Val), nv))
				p.assume(Cmp(OpUle, nv, BV(w, hi.Val)))
				return Resize(nv, 64, false)
			}
			v := p.newNondet(p.ndName(th, args[0]), 64)
			p.assume(Cmp(OpSle, lo, v))
			p.assume(Cmp(OpSle, v, hi))
			if lo.Op == OpConst && hi.Op == OpConst && lo.SInt() > hi.SInt() {
				p.stop("infeasible")
			}
			return v
		},
		"nondetByte": func(th *Thread, fr *frame, fn *ssa.Function, args []Value) Value {
			return th.p.newNondet(th.p.ndName(th, args[0]), 8)
		},
		"nondetBytes": func(th *Thread, fr *frame, fn *ssa.Function, args []Value) Value {
			p := th.p
			base := args[0].(Str).S
			n := th.concInt(args[1])
			out := make([]Value, n)
			for i := range out {
				out[i] = p.newNondet(p.ndName(th, Str{S: fmt.Sprintf("%s[%d]", base, i)}), 8)
			}
			return out
		},
		"nondetString": func(th *Thread, fr *frame, fn *ssa.Function, args []Value) Value {
			p := th.p
			base := args[0].(Str).S
			n := th.concInt(args[1])
			if n == 0 {
				return Str{}
			}
			out := make([]*Term, n)
			for i := range out {
				out[i] = p.newNondet(p.ndName(th, Str{S: fmt.Sprintf("%s[%d]", base, i)}), 8)
			}
			return Str{B: out}
		},
		"nondetChoice": func(th *Thread, fr *frame, fn *ssa.Function, args []Value) Value {
			p := th.p
			v := p.newNondet(p.ndName(th, args[0]), 64)
			n := args[1].(*Term)
			p.assume(Cmp(OpUlt, v, n))
			if n.Op == OpConst && n.Val <= 256 {
				return intV(int64(p.concretizeN(v, int(n.Val))))
			}
			return intV(int64(p.concretize(v)))
		},
		// nondetChoiceStr(name, alts...): a string from a finite alphabet; equality
		// tests are decided on the selector without forking.
		"nondetChoiceStr": func(th *Thread, fr *frame, fn *ssa.Function, args []Value) Value {
			p := th.p
			alts := args[1].([]Value)
			if len(alts) == 0 {
				p.stop("infeasible")
			}
			sel := p.newNondet(p.ndName(th, args[0]), 8)
			p.assume(Cmp(OpUlt, sel, BV(8, uint64(len(alts)))))
			u := UStr{Sel: sel}
			for _, a := range alts {
				u.Alt = append(u.Alt, a.(Str).String())
			}
			if len(alts) == 1 {
				return Str{S: u.Alt[0]}
			}
			return u
		},
		"verifAssume": func(th *Thread, fr *frame, fn *ssa.Function, args []Value) Value {
			th.p.flushAsserts() // assumptions are not retroactive
			if !th.p.branch(args[0].(*Term)) {
				th.p.stop("assume-false")
			}
			return nil
		},
		"verifFail": func(th *Thread, fr *frame, fn *ssa.Function, args []Value) Value {
			id := args[0].(Str).String()
			th.p.flushAsserts()
			th.p.logf("FAIL %s", id)
			th.p.fail("assert", id, "")
			return nil
		},
		"verifCover": func(th *Thread, fr *frame, fn *ssa.Function, args []Value) Value {
			th.p.covers = append(th.p.covers, args[0].(Str).String())
			return nil
		},
		"verifStop": func(th *Thread, fr *frame, fn *ssa.Function, args []Value) Value {
			th.p.flushAsserts()
			th.p.stop("stop")
			return nil
		},
		"verifConcretize": func(th *Thread, fr *frame, fn *ssa.Function, args []Value) Value {
			return intV(th.concInt(args[0]))
		},
		"verifLog": func(th *Thread, fr *frame, fn *ssa.Function, args []Value) Value {
			msg := args[0].(Str).String()
			if len(args) > 1 {
				for _, a := range args[1].([]Value) {
					ai := a.(Iface)
					if ai.T == nil {
						msg += " nil"
					} else {
						msg += " " + describe(ai.V)
					}
				}
			}
			th.p.logf("%s", msg)
			return nil
		},
		"verifTag": func(th *Thread, fr *frame, fn *ssa.Function, args []Value) Value {
			n := args[0].(Str).String()
			if _, ok := th.p.tags[n]; !ok {
				th.p.tagOrder = append(th.p.tagOrder, n)
			}
			th.p.tags[n] = args[1].(*Term)
			return nil
		},
		"verifTagBool": func(th *Thread, fr *frame, fn *ssa.Function, args []Value) Value {
			n := args[0].(Str).String()
			if _, ok := th.p.tags[n]; !ok {
				th.p.tagOrder = append(th.p.tagOrder, n)
			}
			th.p.tags[n] = args[1].(*Term)
			return nil
		},
		// verifAssert(cond, id): one assertion query (pc ∧ ¬cond) instead of a fork;
		// the path continues under cond.
		"verifAssert": func(th *Thread, fr *frame, fn *ssa.Function, args []Value) Value {
			c := args[0].(*Term)
			if c.IsTrue() {
				return nil
			}
			id := args[1].(Str).String()
			p := th.p
			if c.IsFalse() {
				p.flushAsserts()
				p.logf("FAIL %s", id)
				p.fail("assert", id, "")
			}
			p.pending = append(p.pending, pendAssert{c, id})
			return nil
		},
		// verifCoverIf(cond, id): reachability witness without forking.
		"verifCoverIf": func(th *Thread, fr *frame, fn *ssa.Function, args []Value) Value {
			c := args[0].(*Term)
			id := args[1].(Str).String()
			p := th.p
			if c.IsFalse() {
				return nil
			}
			for _, have := range p.covers {
				if have == id {
					return nil
				}
			}
			if p.w.coverSeen[id] {
				return nil // already witnessed by this worker: no need to ask again
			}
			if c.IsTrue() || p.w.solver.CheckWith(c) == Sat {
				p.covers = append(p.covers, id)
				p.w.coverSeen[id] = true
				if !c.IsTrue() {
					// holds for some, not all, values of this path: not part of a witness
					p.softCovers = append(p.softCovers, id)
				}
			}
			return nil
		},
		"verifAnd": func(th *Thread, fr *frame, fn *ssa.Function, args []Value) Value {
			return And(args[0].(*Term), args[1].(*Term))
		},
		"verifOr": func(th *Thread, fr *frame, fn *ssa.Function, args []Value) Value {
			return Or(args[0].(*Term), args[1].(*Term))
		},
		"verifImplies": func(th *Thread, fr *frame, fn *ssa.Function, args []Value) Value {
			return Or(Not(args[0].(*Term)), args[1].(*Term))
		},
		"verifIte": func(th *Thread, fr *frame, fn *ssa.Function, args []Value) Value {
			return Ite(args[0].(*Term), args[1].(*Term), args[2].(*Term))
		},
		"verifIteStr": func(th *Thread, fr *frame, fn *ssa.Function, args []Value) Value {
			c := args[0].(*Term)
			a, b := args[1].(Str), args[2].(Str)
			if c.IsTrue() {
				return a
			}
			if c.IsFalse() {
				return b
			}
			if a.Len() != b.Len() {
				if th.p.branch(c) {
					return a
				}
				return b
			}
			out := make([]*Term, a.Len())
			for i := range out {
				out[i] = Ite(c, a.At(i), b.At(i))
			}
			return mkStr(out)
		},
		// verifCrash(): the process stops here. Control continues after the
		// enclosing verifCatchCrash; no deferred call of the interpreted program runs.
		"verifCrash": func(th *Thread, fr *frame, fn *ssa.Function, args []Value) Value {
			if th.p.crashCatch == 0 {
				panic(unsupported{"verifCrash outside verifCatchCrash"})
			}
			if th.id != 0 {
				panic(unsupported{"verifCrash in a thread other than the harness thread"})
			}
			panic(crashUnwind{})
		},
		// verifCatchCrash(f) bool: runs f; returns true if it crashed. All other
		// threads are discarded on a crash (they belonged to the dead process).
		"verifCatchCrash": func(th *Thread, fr *frame, fn *ssa.Function, args []Value) (res Value) {
			p := th.p
			p.crashCatch++
			depth, top := th.depth, th.top
			defer func() {
				p.crashCatch--
				if r := recover(); r != nil {
					if _, ok := r.(crashUnwind); !ok {
						panic(r)
					}
					th.depth, th.top = depth, top
					for _, t := range p.threads {
						if t != th {
							t.done = true
							t.pending = nil
						}
					}
					p.cur = th
					p.syncSt = map[*Value]*syncState{}
					p.timers = nil
					res = TrueT
				}
			}()
			th.call(fr, args[0], nil)
			return FalseT
		},
		"verifSymbolic": func(th *Thread, fr *frame, fn *ssa.Function, args []Value) Value { return TrueT },
		"verifParam": func(th *Thread, fr *frame, fn *ssa.Function, args []Value) Value {
			if v, ok := th.p.eng.Cfg.Params[args[0].(Str).String()]; ok {
				return intV(v)
			}
			return args[1]
		},
		// verifClock(): the current instant WITHOUT letting time pass (time.Now()
		// lets an arbitrary amount of time pass first): the value the last
		// clock reading of the code under test returned, unless the thread blocked since.
		"verifClock": func(th *Thread, fr *frame, fn *ssa.Function, args []Value) Value {
			return th.p.timeValue(th.p.clock)
		},
		"verifYield": func(th *Thread, fr *frame, fn *ssa.Function, args []Value) Value {
			th.schedPoint(nil, "yield")
			return nil
		},
		// verifQuiesce(): the harness thread waits until no other thread can run.
		"verifQuiesce": func(th *Thread, fr *frame, fn *ssa.Function, args []Value) Value {
			p := th.p
			th.schedPoint(func() bool {
				for _, t := range p.threads {
					if t == th || t.done {
						continue
					}
					if t.ready == nil || t.completed != nil || t.ready() {
						return false
					}
				}
				return true
			}, "quiesce")
			return nil
		},
		"verifPanics": func(th *Thread, fr *frame, fn *ssa.Function, args []Value) Value {
			return intV(int64(len(th.p.panics)))
		},
		"verifIsSym": func(th *Thread, fr *frame, fn *ssa.Function, args []Value) Value {
			return Bool(args[0].(*Term).Op != OpConst)
		},
	}
}
