package sym

import (
	"fmt"
	"os"
	"go/constant"
	"go/token"
	"go/types"
	"strings"

	"golang.org/x/tools/go/ssa"
)

// GoPanic is a panic of the interpreted program.
type GoPanic struct {
	val   Value // the panic value (an interface value)
	where string
	fatal bool // runtime fatal error (not recoverable)
}

type deferred struct {
	fnv  Value
	args []Value
	pos  token.Pos
}

type frame struct {
	th        *Thread
	fn        *ssa.Function
	info      *fnInfo
	regs      []Value
	block     *ssa.BasicBlock
	prev      *ssa.BasicBlock
	defers    []*deferred
	panicking bool
	panicVal  *GoPanic
	result    Value
	caller    *frame
	symIfs    map[*ssa.If]int
}

type fnInfo struct {
	idx       map[ssa.Value]int
	n         int
	consts    map[*ssa.Const]Value
	intrinsic intrinsicFn
	stub      *ssa.Function
	opaque    bool
	name      string
	harnessRT bool
}

type intrinsicFn func(th *Thread, fr *frame, fn *ssa.Function, args []Value) Value

func (e *Engine) info(fn *ssa.Function) *fnInfo {
	e.infoMu.Lock()
	defer e.infoMu.Unlock()
	if in, ok := e.infos[fn]; ok {
		return in
	}
	in := &fnInfo{idx: map[ssa.Value]int{}, consts: map[*ssa.Const]Value{}, name: fn.String()}
	n := 0
	add := func(v ssa.Value) {
		in.idx[v] = n
		n++
	}
	for _, p := range fn.Params {
		add(p)
	}
	for _, fv := range fn.FreeVars {
		add(fv)
	}
	for _, b := range fn.Blocks {
		for _, ins := range b.Instrs {
			if v, ok := ins.(ssa.Value); ok {
				add(v)
			}
		}
	}
	in.n = n
	var ops []*ssa.Value
	for _, b := range fn.Blocks {
		for _, ins := range b.Instrs {
			ops = ins.Operands(ops[:0])
			for _, op := range ops {
				if op == nil || *op == nil {
					continue
				}
				if c, ok := (*op).(*ssa.Const); ok {
					if _, done := in.consts[c]; !done {
						in.consts[c] = safeConst(c)
					}
				}
			}
		}
	}
	// stubs, intrinsics, opacity
	name := in.name
	if fn.Origin() != nil {
		// instantiation of a generic: also try the origin's name
		if s, ok := e.Stubs[fn.Origin().String()]; ok {
			in.stub = s
		}
	}
	if s, ok := e.Stubs[name]; ok && s != fn {
		in.stub = s
	}
	if f, ok := intrinsics[name]; ok {
		in.intrinsic = f
	} else if fn.Origin() != nil {
		if f, ok := intrinsics[fn.Origin().String()]; ok {
			in.intrinsic = f
		}
	}
	if fn.Pkg != nil {
		pp := fn.Pkg.Pkg.Path()
		if e.Opaque[pp] {
			in.opaque = true
		}
		if f := harnessIntrinsic(fn); f != nil {
			in.intrinsic = f
			in.harnessRT = true
		}
	} else if recv := fn.Signature.Recv(); recv != nil {
		if pk := pkgOfType(recv.Type()); pk != nil && e.Opaque[pk.Path()] {
			in.opaque = true
		}
	}
	e.infos[fn] = in
	return in
}

func pkgOfType(t types.Type) *types.Package {
	if p, ok := t.(*types.Pointer); ok {
		t = p.Elem()
	}
	if n, ok := t.(*types.Named); ok {
		return n.Obj().Pkg()
	}
	return nil
}

func constValue(c *ssa.Const) Value {
	if c.Value == nil {
		return zero(c.Type())
	}
	t := c.Type().Underlying()
	if _, ok := t.(*types.Interface); ok {
		// constant of type-parameter or interface type: should not occur
		panic(unsupported{"constant of interface type"})
	}
	b, ok := t.(*types.Basic)
	if !ok {
		panic(unsupported{fmt.Sprintf("constant of type %v", c.Type())})
	}
	switch {
	case b.Info()&types.IsBoolean != 0:
		return Bool(constant.BoolVal(c.Value))
	case b.Info()&types.IsInteger != 0:
		w, _, _ := widthOf(b)
		if v, ok := constant.Int64Val(constant.ToInt(c.Value)); ok {
			return BV(w, uint64(v))
		}
		v, _ := constant.Uint64Val(constant.ToInt(c.Value))
		return BV(w, v)
	case b.Info()&types.IsFloat != 0:
		f, _ := constant.Float64Val(c.Value)
		if b.Kind() == types.Float32 {
			return float64(float32(f))
		}
		return f
	case b.Info()&types.IsComplex != 0:
		re, _ := constant.Float64Val(constant.Real(c.Value))
		im, _ := constant.Float64Val(constant.Imag(c.Value))
		return complex(re, im)
	case b.Info()&types.IsString != 0:
		if c.Value.Kind() == constant.String {
			return Str{S: constant.StringVal(c.Value)}
		}
		// conversion of integer constant to string
		v, _ := constant.Int64Val(c.Value)
		return Str{S: string(rune(v))}
	case b.Kind() == types.UnsafePointer:
		return (*Value)(nil)
	}
	panic(unsupported{fmt.Sprintf("constant %v of type %v", c.Value, c.Type())})
}

func (fr *frame) get(v ssa.Value) Value {
	switch v := v.(type) {
	case *ssa.Const:
		cv, ok := fr.info.consts[v]
		if !ok {
			return constValue(v)
		}
		if ce, bad := cv.(constErr); bad {
			panic(unsupported{ce.what})
		}
		return cv
	case *ssa.Global:
		return fr.th.p.w.globalAddr(fr.th, v)
	case *ssa.Function:
		return v
	case *ssa.Builtin:
		return v
	}
	i, ok := fr.info.idx[v]
	if !ok {
		panic(fmt.Sprintf("get: no register for %T %s in %s", v, v.Name(), fr.fn))
	}
	return fr.regs[i]
}

func (fr *frame) set(v ssa.Value, x Value) {
	fr.regs[fr.info.idx[v]] = x
}

// globalAddr returns the address of a package-level variable, initialising
// its package on first touch.
func (w *Worker) globalAddr(th *Thread, g *ssa.Global) *Value {
	if a, ok := w.globals[g]; ok {
		return a
	}
	a := new(Value)
	*a = zero(g.Type().(*types.Pointer).Elem())
	if b, ok := w.eng.Embeds[g]; ok {
		switch (*a).(type) {
		case Str:
			*a = Str{S: string(b)}
		case []Value:
			s := make([]Value, len(b))
			for i, c := range b {
				s[i] = BV(8, uint64(c))
			}
			*a = s
		}
	}
	w.globals[g] = a
	if g.Pkg != nil {
		w.ensureInit(th, g.Pkg)
	}
	return a
}

// ensureInit runs the package initialiser of pkg (lazily, once per worker).
// Initialisers of imported packages are not run eagerly: they run on their
// own first touch.
func (w *Worker) ensureInit(th *Thread, pkg *ssa.Package) {
	if w.initDone[pkg] {
		return
	}
	w.initDone[pkg] = true
	path := pkg.Pkg.Path()
	if w.eng.NoInit[path] || w.eng.Opaque[path] {
		return
	}
	initFn := pkg.Func("init")
	if initFn == nil || initFn.Blocks == nil {
		return
	}
	if os.Getenv("SYMGO_TRACE_INIT") != "" {
		fmt.Fprintf(os.Stderr, "[init] %s (worker %d)\n", path, w.id)
	}
	w.inInit++
	savedCur := th.p.cur
	defer func() {
		w.inInit--
		th.p.cur = savedCur
		if r := recover(); r != nil {
			switch r := r.(type) {
			case unsupported:
				w.res.InitWarnings[path+": "+r.what]++
			case *GoPanic:
				w.res.InitWarnings[path+": panic in init: "+th.panicString(r)]++
			case initAbort:
				w.res.InitWarnings[path+": "+r.what]++
			default:
				panic(r)
			}
		}
	}()
	th.callFn(nil, initFn, nil, nil)
}

// store writes v to *addr in place (aggregates element-wise), logging the old
// contents so that the worker's long-lived heap can be restored after the path.
func (w *Worker) store(addr *Value, v Value) {
	switch cur := (*addr).(type) {
	case Struct:
		vs := v.(Struct)
		for i := range cur {
			w.store(&cur[i], vs[i])
		}
		return
	case Array:
		vs := v.(Array)
		for i := range cur {
			w.store(&cur[i], vs[i])
		}
		return
	}
	if w.inInit == 0 {
		w.undo = append(w.undo, undoRec{addr, *addr})
	}
	*addr = v
}

func (th *Thread) load(fr *frame, pv Value) Value {
	switch a := pv.(type) {
	case *Value:
		if a == nil {
			th.goPanicRT("invalid memory address or nil pointer dereference")
		}
		return copyVal(*a)
	case *IdxRef:
		return a.load(th)
	case nil:
		th.goPanicRT("invalid memory address or nil pointer dereference")
	}
	panic(unsupported{fmt.Sprintf("load through %T", pv)})
}

func (th *Thread) storeTo(pv Value, v Value) {
	switch a := pv.(type) {
	case *Value:
		if a == nil {
			th.goPanicRT("invalid memory address or nil pointer dereference")
		}
		th.p.w.store(a, v)
		return
	case *IdxRef:
		a.store(th, v)
		return
	case nil:
		th.goPanicRT("invalid memory address or nil pointer dereference")
	}
	panic(unsupported{fmt.Sprintf("store through %T", pv)})
}

// ptr converts a pointer value to a concrete address (concretising a
// symbolic index reference if needed).
func (th *Thread) ptr(pv Value) *Value {
	switch a := pv.(type) {
	case *Value:
		return a
	case *IdxRef:
		return a.concrete(th)
	case nil:
		return nil
	}
	panic(unsupported{fmt.Sprintf("pointer of kind %T", pv)})
}

// IdxRef is the address of base[idx] for a symbolic idx.
type IdxRef struct {
	base []Value
	idx  *Term // 64-bit, already known to be within bounds
}

func (r *IdxRef) load(th *Thread) Value {
	// all elements scalar terms of equal width -> ite chain; else concretise
	var res *Term
	for i := len(r.base) - 1; i >= 0; i-- {
		t, ok := r.base[i].(*Term)
		if !ok {
			return copyVal(*r.concrete(th))
		}
		if res == nil {
			res = t
		} else {
			res = Ite(Eq(r.idx, BV(64, uint64(i))), t, res)
		}
	}
	if res == nil {
		return copyVal(*r.concrete(th))
	}
	return res
}

func (r *IdxRef) store(th *Thread, v Value) {
	vt, ok := v.(*Term)
	if !ok || len(r.base) > 64 {
		th.p.w.store(r.concrete(th), v)
		return
	}
	for i := range r.base {
		old, ok := r.base[i].(*Term)
		if !ok {
			th.p.w.store(r.concrete(th), v)
			return
		}
		th.p.w.store(&r.base[i], Ite(Eq(r.idx, BV(64, uint64(i))), vt, old))
	}
}

func (r *IdxRef) concrete(th *Thread) *Value {
	i := th.p.concretize(r.idx)
	return &r.base[i]
}

// ---- panics ----

func (th *Thread) goPanic(v Value) {
	panic(&GoPanic{val: v, where: th.stackTrace()})
}

func (th *Thread) goPanicStr(msg string) {
	th.goPanic(th.p.eng.runtimeError(msg))
}

func (th *Thread) goPanicRT(msg string) {
	th.goPanic(th.p.eng.runtimeError("runtime error: " + msg))
}

func (th *Thread) stackTrace() string {
	var sb strings.Builder
	n := 0
	for fr := th.top; fr != nil && n < 25; fr = fr.caller {
		pos := ""
		if fr.fn.Prog != nil {
			pos = fr.fn.Prog.Fset.Position(fr.fn.Pos()).String()
		}
		fmt.Fprintf(&sb, "  %s (%s)\n", fr.fn.String(), pos)
		n++
	}
	return sb.String()
}

func (th *Thread) panicString(gp *GoPanic) string {
	switch v := gp.val.(type) {
	case Iface:
		if v.T == nil {
			return "panic(nil)"
		}
		if s, ok := v.V.(Str); ok {
			return s.String()
		}
		// error or Stringer: try the Error method
		if m := th.p.eng.lookupMethodByName(v.T, "Error"); m != nil {
			var out string
			func() {
				defer func() {
					if r := recover(); r != nil {
						out = fmt.Sprintf("%s (Error() failed)", typeKey(v.T))
					}
				}()
				r := th.callFn(nil, m, []Value{v.V}, nil)
				if s, ok := r.(Str); ok {
					out = s.String()
				}
			}()
			return typeKey(v.T) + ": " + out
		}
		return "(" + typeKey(v.T) + ") " + describe(v.V)
	}
	return describe(gp.val)
}

// ---- calls ----

func (th *Thread) call(fr *frame, fnv Value, args []Value) Value {
	switch fn := fnv.(type) {
	case *ssa.Function:
		if fn == nil {
			th.goPanicRT("invalid memory address or nil pointer dereference (call of nil func)")
		}
		return th.callFn(fr, fn, args, nil)
	case *Closure:
		if fn == nil {
			th.goPanicRT("invalid memory address or nil pointer dereference (call of nil func)")
		}
		return th.callFn(fr, fn.Fn, args, fn.Env)
	case *Native:
		return fn.F(th, args)
	case *ssa.Builtin:
		panic(unsupported{"indirect call of builtin " + fn.Name()})
	case nil:
		th.goPanicRT("invalid memory address or nil pointer dereference (call of nil func)")
	}
	panic(fmt.Sprintf("cannot call %T", fnv))
}

func zeroResults(sig *types.Signature) Value {
	switch sig.Results().Len() {
	case 0:
		return nil
	case 1:
		return zero(sig.Results().At(0).Type())
	}
	return zero(sig.Results())
}

func (th *Thread) callFn(caller *frame, fn *ssa.Function, args []Value, env []Value) Value {
	p := th.p
	e := p.eng
	in := e.info(fn)
	w := p.w
	if in.stub != nil {
		w.res.StubsUsed[in.name]++
		return th.callFn(caller, in.stub, args, nil)
	}
	if e.Pure[in.name] && w.inInit == 0 {
		for i, a := range args {
			if u, ok := a.(UStr); ok {
				return th.callLifted(caller, fn, args, env, i, u)
			}
		}
	}
	if in.intrinsic != nil {
		if !in.harnessRT {
			w.res.Intrinsics[in.name]++
			th.forceAll(args)
		}
		return in.intrinsic(th, caller, fn, args)
	}
	if in.opaque {
		w.res.OpaqueCalls[in.name]++
		return zeroResults(fn.Signature)
	}
	if fn.Blocks == nil {
		if w.inInit > 0 {
			w.res.InitWarnings["external "+in.name+" returned zero during init"]++
			return zeroResults(fn.Signature)
		}
		panic(unsupported{"no body: " + in.name})
	}
	if fn.Pkg != nil {
		if strings.HasPrefix(fn.Name(), "init") && w.inInit > 0 && fn.Name() == "init" && caller != nil && caller.fn.Name() == "init" && fn.Pkg != caller.fn.Pkg {
			// imported package's initialiser: lazy
			return nil
		}
		w.ensureInit(th, fn.Pkg)
	}
	if fn.TypeParams().Len() > 0 && len(fn.TypeArgs()) == 0 {
		panic(unsupported{"uninstantiated generic " + in.name})
	}
	if fn.Pkg != nil && unsupportedPkgs[fn.Pkg.Pkg.Path()] {
		if w.inInit > 0 {
			w.res.InitWarnings["call into "+fn.Pkg.Pkg.Path()+" returned zero during init"]++
			return zeroResults(fn.Signature)
		}
		panic(unsupported{"call into " + in.name})
	}
	if w.inInit == 0 && fn.Pkg != nil {
		pp := fn.Pkg.Pkg.Path()
		if (w.initFailed[pp] || (e.NoInit[pp] && !initTolerated[pp])) && e.touchesPkgGlobals(fn) {
			// the package's initialiser did not run (completely): a function
			// that reads its package-level variables may silently misbehave,
			// so refuse instead of guessing
			panic(unsupported{"function " + in.name + " depends on package-level state of " + pp + ", whose initialiser was not (fully) executed"})
		}
	}
	if w.inInit > 0 && caller != nil {
		// during package initialisation a callee the engine cannot execute
		// yields zero values (recorded) instead of abandoning the whole init
		return th.callLenient(caller, fn, in, args, env)
	}
	return th.interpret(caller, fn, in, args, env)
}

var unsupportedPkgs = map[string]bool{"reflect": true, "internal/reflectlite": true, "unsafe": true}

func (th *Thread) callLenient(caller *frame, fn *ssa.Function, in *fnInfo, args []Value, env []Value) (res Value) {
	w := th.p.w
	depth, top := th.depth, th.top
	defer func() {
		if r := recover(); r != nil {
			if fn.Pkg != nil {
				w.markInitFailed(fn.Pkg.Pkg.Path())
			}
			if caller != nil && caller.fn.Pkg != nil {
				w.markInitFailed(caller.fn.Pkg.Pkg.Path())
			}
			switch r := r.(type) {
			case unsupported:
				w.res.InitWarnings[in.name+": "+r.what+" (zero result during init)"]++
			case engineBug:
				w.res.InitWarnings[in.name+": engine error during init: "+fmt.Sprint(r.val)]++
			default:
				panic(r)
			}
			th.depth, th.top = depth, top
			res = zeroResults(fn.Signature)
		}
	}()
	return th.interpret(caller, fn, in, args, env)
}

func (th *Thread) interpret(caller *frame, fn *ssa.Function, in *fnInfo, args []Value, env []Value) Value {
	p := th.p
	e := p.eng
	w := p.w
	if th.depth > e.Cfg.MaxDepth {
		panic(boundExceeded{"call depth"})
	}
	w.res.Functions[in.name]++
	fr := &frame{th: th, fn: fn, info: in, caller: caller, regs: make([]Value, in.n)}
	for i, prm := range fn.Params {
		fr.regs[in.idx[prm]] = args[i]
	}
	for i, fv := range fn.FreeVars {
		fr.regs[in.idx[fv]] = env[i]
	}
	for _, l := range fn.Locals {
		a := new(Value)
		*a = zero(l.Type().(*types.Pointer).Elem())
		fr.regs[in.idx[l]] = a
	}
	fr.block = fn.Blocks[0]
	th.depth++
	savedTop := th.top
	th.top = fr
	defer func() {
		th.depth--
		th.top = savedTop
	}()
	for fr.block != nil {
		th.runFrame(fr)
	}
	return fr.result
}

// runFrame executes instructions until return; interpreted panics run the
// frame's deferred calls and continue in the Recover block when recovered.
func (th *Thread) runFrame(fr *frame) {
	defer func() {
		if fr.block == nil {
			return // normal return
		}
		r := recover()
		gp, ok := r.(*GoPanic)
		if !ok {
			panic(wrapBugT(th, r)) // engine-level control flow or engine bug: propagate
		}
		fr.panicking = true
		fr.panicVal = gp
		th.top = fr
		th.runDefers(fr)
		// recovered
		if fr.fn.Recover != nil {
			fr.block = fr.fn.Recover
			fr.prev = nil
		} else {
			fr.block = nil
			fr.result = zeroResults(fr.fn.Signature)
		}
	}()
	p := th.p
	maxSteps := p.eng.Cfg.MaxSteps
	for {
		p.blocks++
		instrs := fr.block.Instrs
		// phis (parallel assignment)
		np := 0
		for np < len(instrs) {
			if _, ok := instrs[np].(*ssa.Phi); !ok {
				break
			}
			np++
		}
		if np > 0 {
			pi := -1
			for i, pb := range fr.block.Preds {
				if pb == fr.prev {
					pi = i
					break
				}
			}
			tmp := make([]Value, np)
			for i := 0; i < np; i++ {
				tmp[i] = fr.get(instrs[i].(*ssa.Phi).Edges[pi])
			}
			for i := 0; i < np; i++ {
				fr.set(instrs[i].(*ssa.Phi), tmp[i])
			}
		}
		for _, ins := range instrs[np:] {
			p.steps++
			if p.steps > maxSteps {
				panic(boundExceeded{fmt.Sprintf("steps per path > %d", maxSteps)})
			}
			th.curIns = ins
			if th.exec(fr, ins) {
				return
			}
		}
	}
}

func (th *Thread) runDefers(fr *frame) {
	for len(fr.defers) > 0 {
		d := fr.defers[len(fr.defers)-1]
		fr.defers = fr.defers[:len(fr.defers)-1]
		func() {
			defer func() {
				if r := recover(); r != nil {
					gp, ok := r.(*GoPanic)
					if !ok {
						panic(r)
					}
					// a deferred call panicked: replaces the current panic
					fr.panicking = true
					fr.panicVal = gp
				}
			}()
			th.call(fr, d.fnv, d.args)
		}()
	}
	if fr.panicking {
		gp := fr.panicVal
		panic(gp)
	}
}

// doRecover implements the recover() builtin, called from a deferred function.
func (th *Thread) doRecover(fr *frame) Value {
	// fr is the frame of the deferred function; its caller is the panicking frame
	c := fr.caller
	if c != nil && c.panicking && (c.panicVal == nil || !c.panicVal.fatal) {
		c.panicking = false
		gp := c.panicVal
		c.panicVal = nil
		th.p.panics = append(th.p.panics, th.panicString(gp))
		if gp.val == nil {
			return Iface{}
		}
		return gp.val
	}
	return Iface{}
}

func (th *Thread) prepareCall(fr *frame, c *ssa.CallCommon) (Value, []Value) {
	v := fr.get(c.Value)
	var args []Value
	var fnv Value
	if c.Method == nil {
		fnv = v
	} else {
		recv, ok := v.(Iface)
		if !ok || recv.T == nil {
			if mp := c.Method.Pkg(); mp != nil && th.p.eng.Opaque[mp.Path()] {
				// value obtained from an opaque package (zero): its methods are no-ops
				sig := c.Signature()
				th.p.w.res.OpaqueCalls["(nil "+mp.Path()+" interface)."+c.Method.Name()]++
				return &Native{Name: "opaque", F: func(*Thread, []Value) Value { return zeroResults(sig) }}, nil
			}
			th.goPanicRT("invalid memory address or nil pointer dereference (method call on nil interface)")
		}
		m := th.p.eng.lookupMethod(recv.T, c.Method)
		if m == nil {
			panic(fmt.Sprintf("method %s not found on %v", c.Method, recv.T))
		}
		fnv = m
		args = append(args, recv.V)
	}
	for _, a := range c.Args {
		args = append(args, fr.get(a))
	}
	return fnv, args
}

func (e *Engine) lookupMethod(t types.Type, m *types.Func) *ssa.Function {
	return e.Prog.LookupMethod(t, m.Pkg(), m.Name())
}

func (e *Engine) lookupMethodByName(t types.Type, name string) *ssa.Function {
	ms := e.Prog.MethodSets.MethodSet(t)
	for i := 0; i < ms.Len(); i++ {
		sel := ms.At(i)
		if sel.Obj().Name() == name {
			return e.Prog.MethodValue(sel)
		}
	}
	return nil
}

// exec interprets one instruction; returns true on function return.
func (th *Thread) exec(fr *frame, ins ssa.Instruction) bool {
	p := th.p
	switch ins := ins.(type) {
	case *ssa.DebugRef:
	case *ssa.UnOp:
		fr.set(ins, th.unop(fr, ins, fr.get(ins.X)))
	case *ssa.BinOp:
		fr.set(ins, th.binop(ins.Op, ins.X.Type(), fr.get(ins.X), fr.get(ins.Y)))
	case *ssa.Call:
		if b, ok := ins.Call.Value.(*ssa.Builtin); ok {
			var args []Value
			for _, a := range ins.Call.Args {
				args = append(args, fr.get(a))
			}
			fr.set(ins, th.callBuiltin(fr, b, &ins.Call, args))
			break
		}
		if p.w.inInit > 0 && fr.fn.Name() == "init" && fr.fn.Synthetic != "" {
			fr.set(ins, th.initCall(fr, ins))
			break
		}
		fnv, args := th.prepareCall(fr, &ins.Call)
		fr.set(ins, th.call(fr, fnv, args))
	case *ssa.ChangeInterface:
		fr.set(ins, fr.get(ins.X))
	case *ssa.ChangeType:
		fr.set(ins, fr.get(ins.X))
	case *ssa.Convert:
		fr.set(ins, th.conv(ins.Type(), ins.X.Type(), fr.get(ins.X)))
	case *ssa.MultiConvert:
		fr.set(ins, th.conv(ins.Type(), ins.X.Type(), fr.get(ins.X)))
	case *ssa.SliceToArrayPointer:
		s := fr.get(ins.X).([]Value)
		n := ins.Type().(*types.Pointer).Elem().Underlying().(*types.Array).Len()
		if int64(len(s)) < n {
			th.goPanicRT("cannot convert slice to array pointer: length too short")
		}
		if s == nil {
			fr.set(ins, (*Value)(nil))
			break
		}
		a := new(Value)
		*a = Array(s[:n:n]) // shares the backing store
		fr.set(ins, a)
	case *ssa.MakeInterface:
		fr.set(ins, Iface{T: ins.X.Type(), V: fr.get(ins.X)})
	case *ssa.Extract:
		fr.set(ins, fr.get(ins.Tuple).(Tuple)[ins.Index])
	case *ssa.Slice:
		fr.set(ins, th.slice(fr, ins))
	case *ssa.Return:
		switch len(ins.Results) {
		case 0:
		case 1:
			fr.result = fr.get(ins.Results[0])
		default:
			res := make(Tuple, len(ins.Results))
			for i, r := range ins.Results {
				res[i] = fr.get(r)
			}
			fr.result = res
		}
		fr.block = nil
		return true
	case *ssa.RunDefers:
		th.runDefers(fr)
	case *ssa.Panic:
		th.goPanic(fr.get(ins.X))
	case *ssa.Send:
		ch, _ := fr.get(ins.Chan).(*Chan)
		th.chanSend(ch, fr.get(ins.X))
	case *ssa.Store:
		th.storeTo(fr.get(ins.Addr), fr.get(ins.Val))
	case *ssa.If:
		c := fr.get(ins.Cond).(*Term)
		var taken bool
		if c.Op == OpConst {
			taken = c.Val != 0
		} else {
			taken = p.branch(c)
		}
		succ := 1
		if taken {
			succ = 0
		}
		fr.prev, fr.block = fr.block, fr.block.Succs[succ]
		return false
	case *ssa.Jump:
		fr.prev, fr.block = fr.block, fr.block.Succs[0]
		return false
	case *ssa.Defer:
		fnv, args := th.prepareCallDefer(fr, &ins.Call)
		fr.defers = append(fr.defers, &deferred{fnv: fnv, args: args, pos: ins.Pos()})
	case *ssa.Go:
		fnv, args := th.prepareCallDefer(fr, &ins.Call)
		th.spawn(fnv, args, fr.fn.Name())
	case *ssa.MakeChan:
		n := th.concInt(fr.get(ins.Size))
		ch := p.newChan(int(n))
		fr.set(ins, ch)
	case *ssa.Alloc:
		t := ins.Type().(*types.Pointer).Elem()
		if ins.Heap {
			a := new(Value)
			*a = zero(t)
			fr.set(ins, a)
		} else {
			a := fr.get(ins).(*Value)
			// re-zero (loops re-execute the Alloc of a local)
			*a = zero(t)
		}
	case *ssa.MakeSlice:
		n := th.concInt(fr.get(ins.Len))
		c := th.concInt(fr.get(ins.Cap))
		if n < 0 || c < n || c > 1<<24 {
			th.goPanicRT("makeslice: len out of range")
		}
		et := ins.Type().Underlying().(*types.Slice).Elem()
		s := make([]Value, c)
		z := zero(et)
		for i := range s {
			s[i] = copyVal(z)
		}
		fr.set(ins, s[:n])
	case *ssa.MakeMap:
		m := newMap(ins.Type().Underlying().(*types.Map).Key())
		m.epoch = p.w.epoch
		fr.set(ins, m)
	case *ssa.Range:
		fr.set(ins, th.rangeIter(fr.get(ins.X), ins.X.Type(), fr))
	case *ssa.Next:
		fr.set(ins, th.iterNext(fr.get(ins.Iter), ins))
	case *ssa.FieldAddr:
		a := th.ptr(fr.get(ins.X))
		if a == nil {
			th.goPanicRT("invalid memory address or nil pointer dereference")
		}
		fr.set(ins, &(*a).(Struct)[ins.Field])
	case *ssa.Field:
		fr.set(ins, fr.get(ins.X).(Struct)[ins.Field])
	case *ssa.IndexAddr:
		fr.set(ins, th.indexAddr(fr, ins))
	case *ssa.Index:
		fr.set(ins, th.index(fr, ins))
	case *ssa.Lookup:
		fr.set(ins, th.lookup(fr, ins))
	case *ssa.MapUpdate:
		m, _ := fr.get(ins.Map).(*Map)
		if m == nil {
			th.goPanicStr("assignment to entry in nil map")
		}
		th.mapSet(m, fr.get(ins.Key), fr.get(ins.Value))
	case *ssa.TypeAssert:
		fr.set(ins, th.typeAssert(ins, fr.get(ins.X)))
	case *ssa.MakeClosure:
		var env []Value
		for _, b := range ins.Bindings {
			env = append(env, fr.get(b))
		}
		fr.set(ins, &Closure{Fn: ins.Fn.(*ssa.Function), Env: env})
	case *ssa.Select:
		fr.set(ins, th.execSelect(fr, ins))
	default:
		panic(unsupported{fmt.Sprintf("instruction %T", ins)})
	}
	return false
}

// jumped is called after a control transfer; it makes the block loop in
// runFrame restart by signalling "not returned" — runFrame's inner loop must
// stop iterating the old block, which it does because If/Jump are always the
// last instruction of a block.
func (th *Thread) jumped() bool { return false }

// prepareCallDefer is prepareCall for go/defer (builtins become natives).
func (th *Thread) prepareCallDefer(fr *frame, c *ssa.CallCommon) (Value, []Value) {
	if b, ok := c.Value.(*ssa.Builtin); ok {
		var args []Value
		for _, a := range c.Args {
			args = append(args, fr.get(a))
		}
		cc := c
		return &Native{Name: b.Name(), F: func(th *Thread, args []Value) Value {
			return th.callBuiltin(fr, b, cc, args)
		}}, args
	}
	return th.prepareCall(fr, c)
}

// concInt returns a concrete int64 for v (concretising if symbolic).
func (th *Thread) concInt(v Value) int64 {
	t := v.(*Term)
	if t.Op == OpConst {
		return t.SInt()
	}
	return sext(th.p.concretize(t), t.W)
}

// inBounds branches on 0 <= i < n and panics (Go panic) when violated.
func (th *Thread) checkIndex(i *Term, n int, signed bool) {
	var ok *Term
	if i.W == IntW {
		i = ToBV(i, 64)
	}
	if i.Op == OpConst {
		v := int64(i.Val)
		if signed {
			v = i.SInt()
		}
		if v < 0 || v >= int64(n) {
			th.goPanicRT(fmt.Sprintf("index out of range [%d] with length %d", v, n))
		}
		return
	}
	if n > 0 && uint64(n) > mask(i.W) {
		return
	}
	ok = Cmp(OpUlt, i, BV(i.W, uint64(n)))
	if !th.p.branch(ok) {
		th.goPanicRT(fmt.Sprintf("index out of range [sym] with length %d", n))
	}
}

func (th *Thread) indexAddr(fr *frame, ins *ssa.IndexAddr) Value {
	x := fr.get(ins.X)
	idx := fr.get(ins.Index).(*Term)
	var base []Value
	switch x := x.(type) {
	case []Value:
		base = x
	case *Value:
		if x == nil {
			th.goPanicRT("invalid memory address or nil pointer dereference")
		}
		base = []Value((*x).(Array))
	case *IdxRef:
		a := x.concrete(th)
		base = []Value((*a).(Array))
	default:
		panic(unsupported{fmt.Sprintf("IndexAddr on %T", x)})
	}
	_, signed, _ := widthOf(ins.Index.Type())
	th.checkIndex(idx, len(base), signed)
	if idx.Op == OpConst {
		return &base[idx.Val]
	}
	return &IdxRef{base: base, idx: Resize(idx, 64, false)}
}

func (th *Thread) index(fr *frame, ins *ssa.Index) Value {
	x := th.force(fr.get(ins.X))
	idx := fr.get(ins.Index).(*Term)
	_, signed, _ := widthOf(ins.Index.Type())
	switch x := x.(type) {
	case Array:
		th.checkIndex(idx, len(x), signed)
		if idx.Op == OpConst {
			return x[idx.Val]
		}
		return (&IdxRef{base: []Value(x), idx: Resize(idx, 64, false)}).load(th)
	case Str:
		return th.strIndex(x, idx, signed)
	}
	panic(unsupported{fmt.Sprintf("Index on %T", x)})
}

func (th *Thread) strIndex(s Str, idx *Term, signed bool) Value {
	th.checkIndex(idx, s.Len(), signed)
	if idx.Op == OpConst {
		return s.At(int(idx.Val))
	}
	i64 := Resize(idx, 64, false)
	var res *Term
	for i := s.Len() - 1; i >= 0; i-- {
		if res == nil {
			res = s.At(i)
		} else {
			res = Ite(Eq(i64, BV(64, uint64(i))), s.At(i), res)
		}
	}
	return res
}

func (th *Thread) lookup(fr *frame, ins *ssa.Lookup) Value {
	x := fr.get(ins.X)
	if _, ok := x.(UStr); ok {
		x = th.force(x)
	}
	switch x := x.(type) {
	case Str:
		_, signed, _ := widthOf(ins.Index.Type())
		return th.strIndex(x, fr.get(ins.Index).(*Term), signed)
	case *Map:
		vt := ins.X.Type().Underlying().(*types.Map).Elem()
		if r, done := th.mapGetSym(x, fr.get(ins.Index), vt, ins.CommaOk); done {
			return r
		}
		v, ok := th.mapGet(x, fr.get(ins.Index))
		if !ok {
			v = zero(vt)
		} else {
			v = copyVal(v)
		}
		if ins.CommaOk {
			return Tuple{v, Bool(ok)}
		}
		return v
	}
	panic(unsupported{fmt.Sprintf("Lookup on %T", x)})
}

func (th *Thread) slice(fr *frame, ins *ssa.Slice) Value {
	x := th.force(fr.get(ins.X))
	var lo, hi, max int64 = 0, -1, -1
	if ins.Low != nil {
		lo = th.concInt(fr.get(ins.Low))
	}
	if ins.High != nil {
		hi = th.concInt(fr.get(ins.High))
	}
	if ins.Max != nil {
		max = th.concInt(fr.get(ins.Max))
	}
	switch x := x.(type) {
	case Str:
		if hi < 0 && ins.High == nil {
			hi = int64(x.Len())
		}
		if lo < 0 || hi < lo || hi > int64(x.Len()) {
			th.goPanicRT(fmt.Sprintf("slice bounds out of range [%d:%d] with length %d", lo, hi, x.Len()))
		}
		return x.Slice(int(lo), int(hi))
	case []Value:
		if ins.High == nil {
			hi = int64(len(x))
		}
		if ins.Max == nil {
			max = int64(cap(x))
		}
		if lo < 0 || hi < lo || max < hi || max > int64(cap(x)) {
			th.goPanicRT(fmt.Sprintf("slice bounds out of range [%d:%d:%d] with capacity %d", lo, hi, max, cap(x)))
		}
		if x == nil {
			return []Value(nil)
		}
		return x[lo:hi:max]
	case *Value:
		if x == nil {
			th.goPanicRT("invalid memory address or nil pointer dereference")
		}
		a := []Value((*x).(Array))
		if ins.High == nil {
			hi = int64(len(a))
		}
		if ins.Max == nil {
			max = int64(len(a))
		}
		if lo < 0 || hi < lo || max < hi || max > int64(len(a)) {
			th.goPanicRT(fmt.Sprintf("slice bounds out of range [%d:%d:%d] with capacity %d", lo, hi, max, len(a)))
		}
		return a[lo:hi:max]
	}
	panic(unsupported{fmt.Sprintf("Slice on %T", x)})
}

func (th *Thread) typeAssert(ins *ssa.TypeAssert, xv Value) Value {
	x := xv.(Iface)
	ok := false
	var res Value
	if it, isI := ins.AssertedType.Underlying().(*types.Interface); isI {
		if x.T != nil && types.Implements(x.T, it) {
			ok = true
			res = x
		} else {
			res = Iface{}
		}
	} else {
		if x.T != nil && types.Identical(x.T, ins.AssertedType) {
			ok = true
			res = x.V
		} else {
			res = zero(ins.AssertedType)
		}
	}
	if ins.CommaOk {
		return Tuple{res, Bool(ok)}
	}
	if !ok {
		from := "nil"
		if x.T != nil {
			from = typeKey(x.T)
		}
		th.goPanicStr(fmt.Sprintf("interface conversion: interface is %s, not %s", from, typeKey(ins.AssertedType)))
	}
	return res
}

func (th *Thread) execSelect(fr *frame, ins *ssa.Select) Value {
	var cases []selCase
	for _, st := range ins.States {
		ch, _ := fr.get(st.Chan).(*Chan)
		c := selCase{ch: ch, send: st.Dir == types.SendOnly}
		if c.send {
			c.val = fr.get(st.Send)
		}
		cases = append(cases, c)
	}
	r := th.selectOp(cases, !ins.Blocking, "select")
	res := Tuple{BV(64, uint64(int64(r.idx))), Bool(r.ok)}
	for i, st := range ins.States {
		if st.Dir == types.RecvOnly {
			var v Value
			if i == r.idx && r.ok {
				v = r.val
			} else {
				v = zero(st.Chan.Type().Underlying().(*types.Chan).Elem())
			}
			if v == nil && i == r.idx {
				v = zero(st.Chan.Type().Underlying().(*types.Chan).Elem())
			}
			res = append(res, v)
		}
	}
	return res
}

// engineBug is an unexpected Go panic inside the engine, with its stack.
type engineBug struct {
	val   interface{}
	stack string
}

func (b engineBug) String() string { return fmt.Sprintf("%v\n%s", b.val, b.stack) }

func wrapBug(r interface{}) interface{} {
	switch r.(type) {
	case pathEnd, threadKilled, unsupported, boundExceeded, initAbort, engineBug, crashUnwind, *GoPanic:
		return r
	}
	return engineBug{val: r, stack: stackString()}
}

func wrapBugT(th *Thread, r interface{}) interface{} {
	switch r.(type) {
	case pathEnd, threadKilled, unsupported, boundExceeded, initAbort, engineBug, crashUnwind, *GoPanic:
		return r
	}
	return engineBug{val: r, stack: "interpreted stack:\n" + th.stackTrace() + stackString()}
}

type constErr struct{ what string }

func safeConst(c *ssa.Const) (v Value) {
	defer func() {
		if r := recover(); r != nil {
			if u, ok := r.(unsupported); ok {
				v = constErr{u.what}
				return
			}
			v = constErr{fmt.Sprint(r)}
		}
	}()
	return constValue(c)
}

// initCall executes a call made directly by a package initialiser; a Go panic
// or an unsupported construct inside it yields zero results (recorded) so that
// the remaining package-level variables are still initialised.
func (th *Thread) initCall(fr *frame, ins *ssa.Call) (res Value) {
	w := th.p.w
	depth, top := th.depth, th.top
	defer func() {
		if r := recover(); r != nil {
			w.markInitFailed(fr.fn.Pkg.Pkg.Path())
			switch r := r.(type) {
			case *GoPanic:
				w.res.InitWarnings[fr.fn.Pkg.Pkg.Path()+": panic in initialiser call "+ins.Call.String()+": "+th.panicString(r)]++
			case unsupported:
				w.res.InitWarnings[fr.fn.Pkg.Pkg.Path()+": "+r.what]++
			default:
				panic(r)
			}
			th.depth, th.top = depth, top
			res = zeroResults(ins.Call.Signature())
		}
	}()
	fnv, args := th.prepareCall(fr, &ins.Call)
	return th.call(fr, fnv, args)
}

// initTolerated lists packages whose initialiser is known to fail harmlessly
// (the affected variables are only used by functions the engine replaces).
var initTolerated = map[string]bool{
	"errors":               true, // errorType (reflectlite) is used by errors.As only: intrinsic
	"internal/reflectlite": true,
	"reflect":              true,
	"internal/abi":         true,
	"os":                   true, // std streams / runtime hooks; file operations are stubs
	"time":                 true, // local time zone, runtime nanotime: time is modelled
	"sync":                 true,
	"context":              true,
}

func (w *Worker) markInitFailed(path string) {
	if initTolerated[path] {
		return
	}
	if w.initFailed == nil {
		w.initFailed = map[string]bool{}
	}
	w.initFailed[path] = true
}

// touchesPkgGlobals reports whether fn (or a function of the same package it
// calls statically) refers to a package-level variable of its own package.
func (e *Engine) touchesPkgGlobals(fn *ssa.Function) bool {
	e.infoMu.Lock()
	if e.globUse == nil {
		e.globUse = map[*ssa.Function]int8{}
	}
	v, ok := e.globUse[fn]
	e.infoMu.Unlock()
	if ok {
		return v == 1
	}
	seen := map[*ssa.Function]bool{}
	var visit func(f *ssa.Function, depth int) bool
	visit = func(f *ssa.Function, depth int) bool {
		if seen[f] || depth > 6 {
			return false
		}
		seen[f] = true
		var ops []*ssa.Value
		for _, b := range f.Blocks {
			for _, ins := range b.Instrs {
				ops = ins.Operands(ops[:0])
				for _, op := range ops {
					if op == nil || *op == nil {
						continue
					}
					switch x := (*op).(type) {
					case *ssa.Global:
						if x.Pkg == fn.Pkg && !strings.HasPrefix(x.Name(), "init$") {
							return true
						}
					case *ssa.Function:
						if x.Pkg == fn.Pkg && intrinsics[x.String()] == nil && visit(x, depth+1) {
							return true
						}
					}
				}
			}
		}
		for _, af := range f.AnonFuncs {
			if visit(af, depth+1) {
				return true
			}
		}
		return false
	}
	r := visit(fn, 0)
	e.infoMu.Lock()
	if r {
		e.globUse[fn] = 1
	} else {
		e.globUse[fn] = 0
	}
	e.infoMu.Unlock()
	return r
}

// callLifted evaluates a pure function once per alternative of a
// finite-alphabet string argument and merges the results under the same
// selector, so that the choice stays inside the formula instead of forking.
func (th *Thread) callLifted(caller *frame, fn *ssa.Function, args []Value, env []Value, idx int, u UStr) Value {
	p := th.p
	p.w.res.Intrinsics["lifted over alternatives: "+fn.String()]++
	results := make([]Value, len(u.Alt))
	// alternatives that are no longer possible on this path need no evaluation
	for i, alt := range u.Alt {
		a2 := append([]Value(nil), args...)
		a2[idx] = Str{S: alt}
		results[i] = th.callFn(caller, fn, a2, env)
	}
	return th.mergeLifted(results, u)
}

func (th *Thread) mergeLifted(vals []Value, u UStr) Value {
	// identical results?
	k0, ok0 := concreteKey(vals[0])
	same := ok0
	if same {
		for _, v := range vals[1:] {
			k, ok := concreteKey(v)
			if !ok || k != k0 {
				same = false
				break
			}
		}
	}
	if same {
		if _, isPtr := vals[0].(*Value); !isPtr {
			return vals[0]
		}
	}
	switch v0 := vals[0].(type) {
	case Str:
		alts := make([]string, len(vals))
		for i, v := range vals {
			s, ok := v.(Str)
			if !ok || s.B != nil {
				return vals[th.p.concretizeN(u.Sel, len(u.Alt))]
			}
			alts[i] = s.S
		}
		return UStr{Alt: alts, Sel: u.Sel}
	case *Term:
		res := v0
		for i := len(vals) - 1; i >= 0; i-- {
			t, ok := vals[i].(*Term)
			if !ok {
				return vals[th.p.concretizeN(u.Sel, len(u.Alt))]
			}
			if i == len(vals)-1 {
				res = t
			} else {
				res = Ite(Eq(u.Sel, BV(8, uint64(i))), t, res)
			}
		}
		return res
	case Tuple:
		out := make(Tuple, len(v0))
		for c := range v0 {
			comp := make([]Value, len(vals))
			for i, v := range vals {
				comp[i] = v.(Tuple)[c]
			}
			out[c] = th.mergeLifted(comp, u)
		}
		return out
	case Iface:
		// typically an error: split the alternatives into nil / non-nil
		nilSet := FalseT
		anyNil, anyNon := false, false
		firstNon := -1
		for i, v := range vals {
			if v.(Iface).T == nil {
				anyNil = true
				nilSet = Or(nilSet, Eq(u.Sel, BV(8, uint64(i))))
			} else {
				anyNon = true
				if firstNon < 0 {
					firstNon = i
				}
			}
		}
		if !anyNon {
			return Iface{}
		}
		if !anyNil {
			return vals[firstNon]
		}
		if th.p.branch(nilSet) {
			return Iface{}
		}
		return vals[firstNon]
	}
	return vals[th.p.concretizeN(u.Sel, len(u.Alt))]
}
