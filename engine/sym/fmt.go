package sym

import (
	"fmt"
	"go/types"
	"strconv"
	"strings"

	"golang.org/x/tools/go/ssa"
)

// Formatting intrinsics. Strings stay symbolic through %s/%v/%q-free verbs;
// symbolic integers are rendered as an opaque placeholder (recorded).

func init() {
	reg("fmt.Sprintf", func(th *Thread, fr *frame, fn *ssa.Function, args []Value) Value {
		s, _ := th.format(fr, args[0].(Str), args[1].([]Value))
		return s
	})
	reg("fmt.Errorf", func(th *Thread, fr *frame, fn *ssa.Function, args []Value) Value {
		s, wrapped := th.format(fr, args[0].(Str), args[1].([]Value))
		e := th.p.eng
		switch len(wrapped) {
		case 0:
			return e.newError(s)
		case 1:
			a := new(Value)
			*a = Struct{s, wrapped[0]}
			return Iface{T: e.rtTypes.wrapError, V: a}
		}
		errs := make([]Value, len(wrapped))
		for i, w := range wrapped {
			errs[i] = w
		}
		a := new(Value)
		*a = Struct{s, errs}
		return Iface{T: e.rtTypes.wrapErrors, V: a}
	})
	reg("fmt.Sprint", func(th *Thread, fr *frame, fn *ssa.Function, args []Value) Value {
		return th.sprint(fr, args[0].([]Value), false)
	})
	reg("fmt.Sprintln", func(th *Thread, fr *frame, fn *ssa.Function, args []Value) Value {
		return concatStr(th.sprint(fr, args[0].([]Value), true), Str{S: "\n"})
	})
	reg("fmt.Fprintf", func(th *Thread, fr *frame, fn *ssa.Function, args []Value) Value {
		s, _ := th.format(fr, args[1].(Str), args[2].([]Value))
		return th.writeTo(fr, args[0].(Iface), s)
	})
	reg("fmt.Fprint", func(th *Thread, fr *frame, fn *ssa.Function, args []Value) Value {
		return th.writeTo(fr, args[0].(Iface), th.sprint(fr, args[1].([]Value), false))
	})
	reg("fmt.Fprintln", func(th *Thread, fr *frame, fn *ssa.Function, args []Value) Value {
		return th.writeTo(fr, args[0].(Iface), concatStr(th.sprint(fr, args[1].([]Value), true), Str{S: "\n"}))
	})
	for _, n := range []string{"fmt.Println", "fmt.Printf", "fmt.Print"} {
		reg(n, func(th *Thread, fr *frame, fn *ssa.Function, args []Value) Value {
			return Tuple{intV(0), Iface{}}
		})
	}
}

func (th *Thread) writeTo(fr *frame, w Iface, s Str) Value {
	if w.T == nil {
		th.goPanicRT("invalid memory address or nil pointer dereference (nil io.Writer)")
	}
	m := th.p.eng.lookupMethodByName(w.T, "Write")
	if m == nil {
		panic(unsupported{"Fprintf to a value without Write"})
	}
	b := make([]Value, s.Len())
	for i := range b {
		b[i] = s.At(i)
	}
	return th.callFn(fr, m, []Value{w.V, b}, nil)
}

func (th *Thread) sprint(fr *frame, args []Value, spaces bool) Str {
	out := Str{}
	prevStr := false
	for i, a := range args {
		ai := a.(Iface)
		_, isStr := ai.V.(Str)
		if i > 0 && (spaces || (!isStr && !prevStr)) {
			out = concatStr(out, Str{S: " "})
		}
		out = concatStr(out, th.fmtValue(fr, ai, 'v', ""))
		prevStr = isStr
	}
	return out
}

// format implements the subset of fmt verbs the kernels use. It returns the
// formatted string and the operands of %w verbs.
func (th *Thread) format(fr *frame, f Str, args []Value) (Str, []Value) {
	if f.B != nil {
		panic(unsupported{"symbolic format string"})
	}
	out := Str{}
	var wrapped []Value
	s := f.S
	argi := 0
	for i := 0; i < len(s); {
		j := strings.IndexByte(s[i:], '%')
		if j < 0 {
			out = concatStr(out, Str{S: s[i:]})
			break
		}
		out = concatStr(out, Str{S: s[i : i+j]})
		i += j + 1
		if i >= len(s) {
			out = concatStr(out, Str{S: "%!(NOVERB)"})
			break
		}
		// flags, width, precision
		k := i
		for k < len(s) && strings.IndexByte("+-# 0123456789.*[]", s[k]) >= 0 {
			k++
		}
		if k >= len(s) {
			out = concatStr(out, Str{S: "%!(NOVERB)"})
			break
		}
		flags := s[i:k]
		verb := s[k]
		i = k + 1
		if verb == '%' {
			out = concatStr(out, Str{S: "%"})
			continue
		}
		if strings.Contains(flags, "*") {
			argi++ // width from argument: ignore
		}
		if argi >= len(args) {
			out = concatStr(out, Str{S: "%!" + string(verb) + "(MISSING)"})
			continue
		}
		a := args[argi].(Iface)
		argi++
		if verb == 'w' {
			if a.T != nil {
				wrapped = append(wrapped, a)
			}
			verb = 'v'
		}
		out = concatStr(out, th.fmtValue(fr, a, verb, flags))
	}
	return out, wrapped
}

func (th *Thread) fmtValue(fr *frame, a Iface, verb byte, flags string) Str {
	if a.T == nil {
		if verb == 'v' || verb == 's' {
			return Str{S: "<nil>"}
		}
		return Str{S: "%!" + string(verb) + "(<nil>)"}
	}
	if verb == 'T' {
		return Str{S: typeKey(a.T)}
	}
	e := th.p.eng
	// error / Stringer
	if verb == 'v' || verb == 's' || verb == 'q' {
		if p, ok := a.V.(*Value); !(ok && p == nil) || true {
			for _, mn := range []string{"Error", "String"} {
				m := e.lookupMethodByName(a.T, mn)
				if m != nil && m.Signature.Params().Len() == 0 && m.Signature.Results().Len() == 1 && isString(m.Signature.Results().At(0).Type()) {
					if p, ok := a.V.(*Value); ok && p == nil {
						return Str{S: "<nil>"}
					}
					r := th.callFn(fr, m, []Value{a.V}, nil).(Str)
					if verb == 'q' {
						return quoteStr(r)
					}
					return r
				}
			}
		}
	}
	if _, ok := a.V.(UStr); ok {
		a = th.force(a).(Iface)
	}
	switch v := a.V.(type) {
	case Str:
		switch verb {
		case 'q':
			return quoteStr(v)
		case 'x', 'X':
			if v.B == nil {
				return Str{S: fmt.Sprintf("%"+flags+string(verb), v.S)}
			}
			return Str{S: "‹symbolic›"}
		}
		if v.B == nil && flags != "" {
			return Str{S: fmt.Sprintf("%"+flags+string(verb), v.S)}
		}
		return v
	case *Term:
		if v.Op != OpConst {
			th.p.w.res.Intrinsics["fmt: symbolic integer rendered opaquely"]++
			return Str{S: "‹sym›"}
		}
		if v.W == 0 {
			return Str{S: fmt.Sprintf("%"+flags+string(verb), v.Val != 0)}
		}
		_, signed, _ := widthOf(a.T)
		if verb == 'c' || verb == 'U' || (verb == 'q' && v.W == 32) {
			return Str{S: fmt.Sprintf("%"+flags+string(verb), rune(v.SInt()))}
		}
		if signed {
			return Str{S: fmt.Sprintf("%"+flags+string(verb), v.SInt())}
		}
		return Str{S: fmt.Sprintf("%"+flags+string(verb), v.Val)}
	case float64:
		return Str{S: fmt.Sprintf("%"+flags+string(verb), v)}
	case []Value:
		// []byte with %s / %x
		if st, ok := a.T.Underlying().(*types.Slice); ok {
			if b, ok := st.Elem().Underlying().(*types.Basic); ok && b.Kind() == types.Uint8 && (verb == 's' || verb == 'q') {
				s := mkStr(bytesOf(v))
				if verb == 'q' {
					return quoteStr(s)
				}
				return s
			}
			parts := Str{S: "["}
			for i, x := range v {
				if i > 0 {
					parts = concatStr(parts, Str{S: " "})
				}
				parts = concatStr(parts, th.fmtValue(fr, th.asIface(st.Elem(), x), verb, flags))
			}
			return concatStr(parts, Str{S: "]"})
		}
	case *Value:
		if v == nil {
			return Str{S: "<nil>"}
		}
		if verb == 'p' {
			return Str{S: fmt.Sprintf("%p", v)}
		}
		if pt, ok := a.T.Underlying().(*types.Pointer); ok {
			if _, ok := pt.Elem().Underlying().(*types.Struct); ok && verb == 'v' {
				return concatStr(Str{S: "&"}, th.fmtValue(fr, Iface{T: pt.Elem(), V: *v}, verb, flags))
			}
		}
		return Str{S: fmt.Sprintf("%p", v)}
	case Struct:
		st, ok := a.T.Underlying().(*types.Struct)
		if ok {
			out := Str{S: "{"}
			for i, x := range v {
				if i > 0 {
					out = concatStr(out, Str{S: " "})
				}
				if strings.Contains(flags, "+") {
					out = concatStr(out, Str{S: st.Field(i).Name() + ":"})
				}
				out = concatStr(out, th.fmtValue(fr, th.asIface(st.Field(i).Type(), x), verb, flags))
			}
			return concatStr(out, Str{S: "}"})
		}
	case Array:
		at, ok := a.T.Underlying().(*types.Array)
		if ok {
			out := Str{S: "["}
			for i, x := range v {
				if i > 0 {
					out = concatStr(out, Str{S: " "})
				}
				out = concatStr(out, th.fmtValue(fr, th.asIface(at.Elem(), x), verb, flags))
			}
			return concatStr(out, Str{S: "]"})
		}
	case *Map:
		if v == nil {
			return Str{S: "map[]"}
		}
		mt, ok := a.T.Underlying().(*types.Map)
		if ok {
			out := Str{S: "map["}
			first := true
			for i := range v.keys {
				if !v.live[i] {
					continue
				}
				if !first {
					out = concatStr(out, Str{S: " "})
				}
				first = false
				out = concatStr(out, th.fmtValue(fr, th.asIface(mt.Key(), v.keys[i]), verb, flags))
				out = concatStr(out, Str{S: ":"})
				out = concatStr(out, th.fmtValue(fr, th.asIface(mt.Elem(), v.vals[i]), verb, flags))
			}
			return concatStr(out, Str{S: "]"})
		}
	case Iface:
		return th.fmtValue(fr, v, verb, flags)
	}
	return Str{S: "‹" + typeKey(a.T) + "›"}
}

// asIface boxes x of static type t the way MakeInterface would.
func (th *Thread) asIface(t types.Type, x Value) Iface {
	if _, ok := t.Underlying().(*types.Interface); ok {
		if xi, ok := x.(Iface); ok {
			return xi
		}
	}
	return Iface{T: t, V: x}
}

func quoteStr(s Str) Str {
	if s.B == nil {
		return Str{S: strconv.Quote(s.S)}
	}
	return concatStr(concatStr(Str{S: "\""}, s), Str{S: "\""})
}
