package sym

import (
	"fmt"
	"go/types"
	"strings"

	"golang.org/x/tools/go/ssa"
)

// Value is an interpreter value:
//
//	*Term           bool and integer scalars (constant or symbolic)
//	float64         float32/float64 (always concrete)
//	complex128
//	Str             strings (concrete, or symbolic bytes of concrete length)
//	Struct, Array   aggregates (copied on load/store)
//	*Value          pointers
//	[]Value         slices
//	*Map, *Chan
//	*ssa.Function, *ssa.Builtin, *Closure, *Native   functions
//	Iface           interfaces
//	Tuple           multiple results
type Value interface{}

type Struct []Value
type Array []Value
type Tuple []Value

// Str is a Go string: concrete (B == nil) or a vector of byte terms.
type Str struct {
	S string
	B []*Term
}

func (s Str) Len() int {
	if s.B != nil {
		return len(s.B)
	}
	return len(s.S)
}

func (s Str) IsSym() bool { return s.B != nil }

// At returns byte i as an 8-bit term.
func (s Str) At(i int) *Term {
	if s.B != nil {
		return s.B[i]
	}
	return BV(8, uint64(s.S[i]))
}

// Bytes returns the byte terms.
func (s Str) Bytes() []*Term {
	if s.B != nil {
		return s.B
	}
	b := make([]*Term, len(s.S))
	for i := 0; i < len(s.S); i++ {
		b[i] = BV(8, uint64(s.S[i]))
	}
	return b
}

// mkStr builds a Str from byte terms, concretising when all are constant.
func mkStr(b []*Term) Str {
	for _, t := range b {
		if t.Op != OpConst {
			if len(b) == 0 {
				return Str{}
			}
			return Str{B: b}
		}
	}
	var sb strings.Builder
	for _, t := range b {
		sb.WriteByte(byte(t.Val))
	}
	return Str{S: sb.String()}
}

func (s Str) Slice(lo, hi int) Str {
	if s.B != nil {
		return mkStr(s.B[lo:hi])
	}
	return Str{S: s.S[lo:hi]}
}

func concatStr(a, b Str) Str {
	if a.B == nil && b.B == nil {
		return Str{S: a.S + b.S}
	}
	if a.Len() == 0 {
		return b
	}
	if b.Len() == 0 {
		return a
	}
	out := make([]*Term, 0, a.Len()+b.Len())
	out = append(out, a.Bytes()...)
	out = append(out, b.Bytes()...)
	return Str{B: out}
}

func (s Str) String() string {
	if s.B == nil {
		return s.S
	}
	var sb strings.Builder
	for _, t := range s.B {
		if t.Op == OpConst {
			sb.WriteByte(byte(t.Val))
		} else {
			sb.WriteString("‹?›")
		}
	}
	return sb.String()
}

// UStr is a string chosen from a finite alphabet by a symbolic selector
// (Alt[Sel]). Equality and len are computed on the selector; any operation
// that needs bytes forces it (the path forks once per alternative).
type UStr struct {
	Alt []string
	Sel *Term // 8-bit, < len(Alt)
}

func ustrEqStr(u UStr, s Str) *Term {
	r := FalseT
	for i, a := range u.Alt {
		if len(a) != s.Len() {
			continue
		}
		e := eqTerm(Str{S: a}, s)
		if e.IsFalse() {
			continue
		}
		r = Or(r, And(Eq(u.Sel, BV(8, uint64(i))), e))
	}
	return r
}

// OpaqueFloat is a floating-point value the engine does not track (derived from
// a symbolic integer). Arithmetic on it stays opaque; converting it back to an
// integer yields an unconstrained fresh symbol; comparing it forks freely.
type OpaqueFloat struct{}

type Iface struct {
	T types.Type
	V Value
}

type Closure struct {
	Fn  *ssa.Function
	Env []Value
}

// Native is a function value implemented by the engine (e.g. a bound intrinsic).
type Native struct {
	Name string
	F    func(th *Thread, args []Value) Value
}

type Map struct {
	keys    []Value
	vals    []Value
	live    []bool
	idx     map[string]int // concrete key -> entry
	symKeys []int          // entries whose key is not fully concrete
	n       int
	kt      types.Type
	epoch   int64
}

type Chan struct {
	buf    []Value
	cap    int
	closed bool
	id     int
	// rendezvous for unbuffered channels
	recvWaiting int
	elemT       types.Type
	timer       *timerState // non-nil for time.Timer/Ticker/After channels
}

type timerState struct {
	deadline *Term // absolute clock value (64-bit) at which the timer fires
	active   bool
	period   *Term
	fired    bool
	polledAt *Term
	fires    int
}

func isNilValue(v Value) bool {
	switch v := v.(type) {
	case nil:
		return true
	case *Value:
		return v == nil
	case *SlicePtr:
		return v == nil
	case *StrPtr:
		return v == nil
	case []Value:
		return v == nil
	case *Map:
		return v == nil
	case *Chan:
		return v == nil
	case *ssa.Function:
		return v == nil
	case *Closure:
		return v == nil
	case *Native:
		return v == nil
	case *ssa.Builtin:
		return v == nil
	case Iface:
		return v.T == nil
	}
	return false
}

func widthOf(t types.Type) (w uint8, signed bool, ok bool) {
	b, isB := t.Underlying().(*types.Basic)
	if !isB {
		return 0, false, false
	}
	switch b.Kind() {
	case types.Bool, types.UntypedBool:
		return 0, false, true
	case types.Int8:
		return 8, true, true
	case types.Int16:
		return 16, true, true
	case types.Int32, types.UntypedRune:
		return 32, true, true
	case types.Int, types.Int64, types.UntypedInt:
		return 64, true, true
	case types.Uint8:
		return 8, false, true
	case types.Uint16:
		return 16, false, true
	case types.Uint32:
		return 32, false, true
	case types.Uint, types.Uint64, types.Uintptr:
		return 64, false, true
	}
	return 0, false, false
}

func isFloat(t types.Type) bool {
	b, ok := t.Underlying().(*types.Basic)
	return ok && b.Info()&types.IsFloat != 0
}

func isComplex(t types.Type) bool {
	b, ok := t.Underlying().(*types.Basic)
	return ok && b.Info()&types.IsComplex != 0
}

func isString(t types.Type) bool {
	b, ok := t.Underlying().(*types.Basic)
	return ok && b.Info()&types.IsString != 0
}

// zero returns the zero value of type t.
func zero(t types.Type) Value {
	switch u := t.Underlying().(type) {
	case *types.Basic:
		if u.Kind() == types.UnsafePointer {
			return (*Value)(nil)
		}
		if w, _, ok := widthOf(u); ok {
			if w == 0 {
				return FalseT
			}
			return BV(w, 0)
		}
		if u.Info()&types.IsFloat != 0 {
			return float64(0)
		}
		if u.Info()&types.IsComplex != 0 {
			return complex128(0)
		}
		if u.Info()&types.IsString != 0 {
			return Str{}
		}
		if u.Kind() == types.UntypedNil {
			return nil
		}
		panic(fmt.Sprintf("zero: basic %v", u))
	case *types.Struct:
		s := make(Struct, u.NumFields())
		for i := range s {
			s[i] = zero(u.Field(i).Type())
		}
		return s
	case *types.Array:
		a := make(Array, u.Len())
		for i := range a {
			a[i] = zero(u.Elem())
		}
		return a
	case *types.Pointer:
		return (*Value)(nil)
	case *types.Slice:
		return []Value(nil)
	case *types.Map:
		return (*Map)(nil)
	case *types.Chan:
		return (*Chan)(nil)
	case *types.Signature:
		return (*ssa.Function)(nil)
	case *types.Interface:
		return Iface{}
	case *types.Tuple:
		if u.Len() == 1 {
			return zero(u.At(0).Type())
		}
		tp := make(Tuple, u.Len())
		for i := range tp {
			tp[i] = zero(u.At(i).Type())
		}
		return tp
	}
	panic(fmt.Sprintf("zero: unhandled type %T %v", t, t))
}

// copyVal copies aggregates so that the result does not alias v.
func copyVal(v Value) Value {
	switch v := v.(type) {
	case Struct:
		c := make(Struct, len(v))
		for i, f := range v {
			c[i] = copyVal(f)
		}
		return c
	case Array:
		c := make(Array, len(v))
		for i, f := range v {
			c[i] = copyVal(f)
		}
		return c
	}
	return v
}

// typeKey gives a canonical string for a type (for map keys / identity).
func typeKey(t types.Type) string { return types.TypeString(t, nil) }

// concreteKey returns a canonical string for a fully concrete comparable value.
func concreteKey(v Value) (string, bool) {
	switch v := v.(type) {
	case *Term:
		if v.Op != OpConst {
			return "", false
		}
		return fmt.Sprintf("i%d:%d", v.W, v.Val), true
	case Str:
		if v.B != nil {
			return "", false
		}
		return "s" + v.S, true
	case float64:
		return fmt.Sprintf("f%v", v), true
	case *Value:
		return fmt.Sprintf("p%p", v), true
	case *Chan:
		return fmt.Sprintf("c%p", v), true
	case Iface:
		if v.T == nil {
			return "nil", true
		}
		k, ok := concreteKey(v.V)
		if !ok {
			return "", false
		}
		return "I<" + typeKey(v.T) + ">" + k, true
	case Struct:
		var sb strings.Builder
		sb.WriteString("{")
		for _, f := range v {
			k, ok := concreteKey(f)
			if !ok {
				return "", false
			}
			fmt.Fprintf(&sb, "%d:%s,", len(k), k)
		}
		sb.WriteString("}")
		return sb.String(), true
	case Array:
		var sb strings.Builder
		sb.WriteString("[")
		for _, f := range v {
			k, ok := concreteKey(f)
			if !ok {
				return "", false
			}
			fmt.Fprintf(&sb, "%d:%s,", len(k), k)
		}
		sb.WriteString("]")
		return sb.String(), true
	case nil:
		return "nil", true
	}
	return "", false
}

// eqTerm returns the Boolean term a == b for comparable values.
func eqTerm(a, b Value) *Term {
	switch a := a.(type) {
	case *Term:
		return Eq(a, b.(*Term))
	case UStr:
		switch bv := b.(type) {
		case Str:
			return ustrEqStr(a, bv)
		case UStr:
			r := FalseT
			for i, x := range a.Alt {
				for j, y := range bv.Alt {
					if x == y {
						r = Or(r, And(Eq(a.Sel, BV(8, uint64(i))), Eq(bv.Sel, BV(8, uint64(j)))))
					}
				}
			}
			return r
		}
		panic("eqTerm: UStr vs non-string")
	case Str:
		if bu, ok := b.(UStr); ok {
			return ustrEqStr(bu, a)
		}
		bs := b.(Str)
		if a.Len() != bs.Len() {
			return FalseT
		}
		if a.B == nil && bs.B == nil {
			return Bool(a.S == bs.S)
		}
		r := TrueT
		for i := 0; i < a.Len(); i++ {
			r = And(r, Eq(a.At(i), bs.At(i)))
			if r.IsFalse() {
				return r
			}
		}
		return r
	case float64:
		return Bool(a == b.(float64))
	case complex128:
		return Bool(a == b.(complex128))
	case *Value:
		bp, _ := b.(*Value)
		return Bool(a == bp)
	case *Chan:
		bp, _ := b.(*Chan)
		return Bool(a == bp)
	case *Map:
		bp, _ := b.(*Map)
		return Bool(a == bp)
	case []Value:
		// only comparison with nil is legal
		return Bool(a == nil && isNilValue(b))
	case Iface:
		bi, ok := b.(Iface)
		if !ok {
			return Bool(a.T == nil && isNilValue(b))
		}
		if a.T == nil || bi.T == nil {
			return Bool(a.T == nil && bi.T == nil)
		}
		if !types.Identical(a.T, bi.T) {
			return FalseT
		}
		return eqTerm(a.V, bi.V)
	case Struct:
		bs := b.(Struct)
		r := TrueT
		for i := range a {
			r = And(r, eqTerm(a[i], bs[i]))
			if r.IsFalse() {
				return r
			}
		}
		return r
	case Array:
		bs := b.(Array)
		r := TrueT
		for i := range a {
			r = And(r, eqTerm(a[i], bs[i]))
			if r.IsFalse() {
				return r
			}
		}
		return r
	case *ssa.Function:
		bf, ok := b.(*ssa.Function)
		if ok {
			return Bool(a == bf)
		}
		return Bool(a == nil && isNilValue(b))
	case *Closure:
		bf, ok := b.(*Closure)
		if ok {
			return Bool(a == bf)
		}
		return Bool(a == nil && isNilValue(b))
	case *Native:
		return Bool(a == nil && isNilValue(b))
	case *ssa.Builtin:
		return Bool(a == nil && isNilValue(b))
	case nil:
		return Bool(isNilValue(b))
	}
	panic(fmt.Sprintf("eqTerm: unhandled %T", a))
}

func newMap(kt types.Type) *Map {
	return &Map{idx: make(map[string]int), kt: kt}
}

// describe renders a value for logs and samples.
func describe(v Value) string {
	return describeD(v, 0)
}

func describeD(v Value, d int) string {
	if d > 4 {
		return "…"
	}
	switch v := v.(type) {
	case nil:
		return "nil"
	case *Term:
		if v.Op == OpConst {
			if v.W == 0 {
				return fmt.Sprint(v.Val == 1)
			}
			return fmt.Sprint(v.SInt())
		}
		s := v.String()
		if len(s) > 80 {
			s = s[:80] + "…"
		}
		return s
	case Str:
		return fmt.Sprintf("%q", v.String())
	case UStr:
		return fmt.Sprintf("one-of%q", v.Alt)
	case float64:
		return fmt.Sprint(v)
	case Struct:
		var p []string
		for _, f := range v {
			p = append(p, describeD(f, d+1))
		}
		return "{" + strings.Join(p, " ") + "}"
	case Array:
		var p []string
		for _, f := range v {
			p = append(p, describeD(f, d+1))
		}
		return "[" + strings.Join(p, " ") + "]"
	case []Value:
		if v == nil {
			return "[]nil"
		}
		var p []string
		for i, f := range v {
			if i > 16 {
				p = append(p, "…")
				break
			}
			p = append(p, describeD(f, d+1))
		}
		return "[" + strings.Join(p, " ") + "]"
	case *Value:
		if v == nil {
			return "nil"
		}
		return "&" + describeD(*v, d+1)
	case Iface:
		if v.T == nil {
			return "nil"
		}
		return "(" + typeKey(v.T) + ")" + describeD(v.V, d+1)
	case Tuple:
		var p []string
		for _, f := range v {
			p = append(p, describeD(f, d+1))
		}
		return "(" + strings.Join(p, ", ") + ")"
	case *Map:
		if v == nil {
			return "map(nil)"
		}
		return fmt.Sprintf("map[%d]", v.n)
	case *ssa.Function:
		if v == nil {
			return "func(nil)"
		}
		return v.String()
	case *Closure:
		return "closure:" + v.Fn.String()
	}
	return fmt.Sprintf("%T", v)
}
