package sym

import (
	"bufio"
	"fmt"
	"io"
	"math/big"
	"os"
	"os/exec"
	"strconv"
	"strings"
	"time"
)

// Solver is one live SMT solver process spoken to over a pipe.
type Solver struct {
	cmd     *exec.Cmd
	in      *bufio.Writer
	out     *bufio.Reader
	inRaw   io.WriteCloser
	nextID  int64
	emitted map[*Term]string // term -> name of its define-fun in the current path scope
	decl    map[string]bool  // declared variables / functions in the current path scope
	Stats   SolverStats
	log     *bufio.Writer // optional transcript
	marker  int
	kind    string

	// incremental reuse of the path prefix shared with the previous path:
	// one solver scope per decision level
	level     int // level being written by the current path
	kept      int // levels 0..kept are already in the solver (shared prefix)
	pushed    int // levels 0..pushed exist in the solver
	lvlTerms  [][]*Term  // per level: terms defined there
	lvlDecls  [][]string // per level: names declared there
	lvlFinger []uint64   // per level: fingerprint of what was asserted
	curFinger uint64
	Mismatch  bool
}

type SolverStats struct {
	Queries      int
	Sat          int
	Unsat        int
	Unknown      int
	Errors       int
	Time         time.Duration
	MaxQueryTime time.Duration
}

// SolverCmd is the command used to start a solver; overridable (cross-checks).
var SolverCmd = []string{"z3-new", "-in"}

// QueryTimeoutMS is the per-query soft timeout.
var QueryTimeoutMS = 30000

func NewSolver(transcript string) (*Solver, error) {
	cmd := exec.Command(SolverCmd[0], SolverCmd[1:]...)
	stdin, err := cmd.StdinPipe()
	if err != nil {
		return nil, err
	}
	stdout, err := cmd.StdoutPipe()
	if err != nil {
		return nil, err
	}
	cmd.Stderr = os.Stderr
	if err := cmd.Start(); err != nil {
		return nil, err
	}
	s := &Solver{cmd: cmd, in: bufio.NewWriterSize(stdin, 1<<16), out: bufio.NewReaderSize(stdout, 1<<16), inRaw: stdin}
	s.kind = SolverCmd[0]
	if transcript != "" {
		f, err := os.Create(transcript)
		if err == nil {
			s.log = bufio.NewWriter(f)
		}
	}
	s.pushed, s.kept, s.level = -1, -1, -1
	s.send("(set-option :print-success false)")
	if strings.Contains(s.kind, "z3") {
		s.send(fmt.Sprintf("(set-option :timeout %d)", QueryTimeoutMS))
	} else {
		s.send("(set-logic ALL)")
	}
	s.reset()
	return s, nil
}

func (s *Solver) Close() {
	if s.log != nil {
		s.log.Flush()
	}
	s.inRaw.Close()
	s.cmd.Process.Kill()
	s.cmd.Wait()
}

func (s *Solver) send(line string) {
	s.in.WriteString(line)
	s.in.WriteByte('\n')
	if s.log != nil {
		s.log.WriteString(line)
		s.log.WriteByte('\n')
	}
}

func (s *Solver) reset() {
	s.emitted = make(map[*Term]string)
	s.decl = make(map[string]bool)
}

// BeginPath prepares the solver for a path that shares its first `shared`
// decisions with the previous path of this worker (-1: nothing to reuse).
// Levels 0..shared stay in the solver; deeper levels are popped.
func (s *Solver) BeginPath(shared int) {
	if s.pushed < 0 {
		shared = -1
	}
	if shared > s.pushed {
		shared = s.pushed
	}
	for s.pushed > shared {
		for _, t := range s.lvlTerms[s.pushed] {
			delete(s.emitted, t)
		}
		for _, n := range s.lvlDecls[s.pushed] {
			delete(s.decl, n)
		}
		s.lvlTerms = s.lvlTerms[:s.pushed]
		s.lvlDecls = s.lvlDecls[:s.pushed]
		s.lvlFinger = s.lvlFinger[:s.pushed]
		s.send("(pop 1)")
		s.pushed--
	}
	s.kept = shared
	s.level = -1
	s.curFinger = 0
	s.Decision() // level 0: everything before the first decision
}

// Decision starts the next level (called at the start of a path and at every decision).
func (s *Solver) Decision() {
	if s.level >= 0 {
		if s.level <= s.kept {
			if s.lvlFinger[s.level] != s.curFinger {
				s.Mismatch = true
			}
		} else {
			s.lvlFinger[s.level] = s.curFinger
		}
	}
	s.level++
	s.curFinger = 0
	if s.level > s.kept {
		s.send("(push 1)")
		s.pushed = s.level
		s.lvlTerms = append(s.lvlTerms, nil)
		s.lvlDecls = append(s.lvlDecls, nil)
		s.lvlFinger = append(s.lvlFinger, 0)
	}
}

// EndPath closes the fingerprint of the last level.
func (s *Solver) EndPath() {
	if s.level >= 0 && s.level > s.kept {
		s.lvlFinger[s.level] = s.curFinger
	}
}

func fingerprint(h uint64, t *Term) uint64 {
	k := t.Key()
	if k == "" {
		k = "big"
	}
	for i := 0; i < len(k); i++ {
		h = (h ^ uint64(k[i])) * 1099511628211
	}
	return h*31 + 7
}

// ref makes sure every variable of t is declared and every shared inner node
// is defined, and returns the text that refers to t.
func (s *Solver) ref(t *Term) string {
	switch t.Op {
	case OpConst:
		return constSMT(t)
	case OpVar:
		q := quoteSym(t.Name)
		if !s.decl[t.Name] {
			s.decl[t.Name] = true
			s.lvlDecls[s.pushed] = append(s.lvlDecls[s.pushed], t.Name)
			s.send(fmt.Sprintf("(declare-const %s %s)", q, sortSMT(t.W)))
		}
		return q
	}
	if n, ok := s.emitted[t]; ok {
		return n
	}
	if t.Op == OpBV2Int && t.Aux == 1 {
		// signed interpretation of a bit-vector
		x := t.Args[0]
		xs := s.ref(x)
		s.nextID++
		name := "t!" + strconv.FormatInt(s.nextID, 10)
		pow := new(big.Int).Lsh(big.NewInt(1), uint(x.W)).String()
		s.send(fmt.Sprintf("(define-fun %s () Int (ite (bvslt %s %s) (- (bv2nat %s) %s) (bv2nat %s)))", name, xs, constSMT(BV(x.W, 0)), xs, pow, xs))
		s.emitted[t] = name
		s.lvlTerms[s.pushed] = append(s.lvlTerms[s.pushed], t)
		return name
	}
	var sb strings.Builder
	sb.WriteByte('(')
	if t.Op == OpApp {
		if !s.decl["fn:"+t.Name] {
			s.decl["fn:"+t.Name] = true
			s.lvlDecls[s.pushed] = append(s.lvlDecls[s.pushed], "fn:"+t.Name)
			var as []string
			for _, a := range t.Args {
				as = append(as, sortSMT(a.W))
			}
			s.send(fmt.Sprintf("(declare-fun %s (%s) %s)", quoteSym(t.Name), strings.Join(as, " "), sortSMT(t.W)))
		}
	}
	sb.WriteString(t.head())
	for _, a := range t.Args {
		sb.WriteByte(' ')
		sb.WriteString(s.ref(a))
	}
	sb.WriteByte(')')
	s.nextID++
	name := "t!" + strconv.FormatInt(s.nextID, 10)
	s.send(fmt.Sprintf("(define-fun %s () %s %s)", name, sortSMT(t.W), sb.String()))
	s.emitted[t] = name
	s.lvlTerms[s.pushed] = append(s.lvlTerms[s.pushed], t)
	return name
}

// Assert adds t to the path condition (no check).
func (s *Solver) Assert(t *Term) {
	if t.IsTrue() {
		return
	}
	s.curFinger = fingerprint(s.curFinger, t)
	if s.level <= s.kept {
		return // shared prefix: already asserted by the previous path
	}
	s.send("(assert " + s.ref(t) + ")")
}

// Result of a check.
type Result int

const (
	Sat Result = iota
	Unsat
	Unknown
)

func (r Result) String() string { return [...]string{"sat", "unsat", "unknown"}[r] }

// readUntilMarker flushes and returns the lines the solver printed before the echo marker.
func (s *Solver) readUntilMarker() []string {
	s.marker++
	m := "<<m" + strconv.Itoa(s.marker) + ">>"
	s.send("(echo \"" + m + "\")")
	s.in.Flush()
	if s.log != nil {
		s.log.Flush()
	}
	var lines []string
	for {
		line, err := s.out.ReadString('\n')
		line = strings.TrimSpace(line)
		if strings.Trim(line, "\"") == m {
			return lines
		}
		if line != "" {
			lines = append(lines, line)
		}
		if err != nil {
			lines = append(lines, "(error \"solver pipe closed: "+err.Error()+"\")")
			return lines
		}
	}
}

// CheckWith decides satisfiability of (path condition ∧ extra...).
func (s *Solver) CheckWith(extra ...*Term) Result {
	var refs []string
	for _, e := range extra {
		refs = append(refs, s.ref(e))
	}
	start := time.Now()
	if len(refs) > 0 {
		s.send("(push 1)")
		for _, r := range refs {
			s.send("(assert " + r + ")")
		}
	}
	s.send("(check-sat)")
	lines := s.readUntilMarker()
	if len(refs) > 0 {
		s.send("(pop 1)")
	}
	d := time.Since(start)
	s.Stats.Queries++
	s.Stats.Time += d
	if d > s.Stats.MaxQueryTime {
		s.Stats.MaxQueryTime = d
	}
	res := Unknown
	bad := false
	for _, l := range lines {
		switch {
		case l == "sat":
			res = Sat
		case l == "unsat":
			res = Unsat
		case l == "unknown":
			res = Unknown
		case strings.HasPrefix(l, "(error"):
			bad = true
			fmt.Fprintln(os.Stderr, "solver:", l)
		}
	}
	if bad {
		s.Stats.Errors++
		res = Unknown
	}
	switch res {
	case Sat:
		s.Stats.Sat++
	case Unsat:
		s.Stats.Unsat++
	default:
		s.Stats.Unknown++
	}
	return res
}

// Model returns values of the given variables after a Sat answer obtained
// with extra assertions (re-checked inside one scope so values are consistent).
func (s *Solver) Model(vars []*Term, extra ...*Term) (map[string]uint64, Result) {
	var refs []string
	for _, e := range extra {
		refs = append(refs, s.ref(e))
	}
	var vrefs []string
	for _, v := range vars {
		vrefs = append(vrefs, s.ref(v))
	}
	s.send("(push 1)")
	for _, r := range refs {
		s.send("(assert " + r + ")")
	}
	s.send("(check-sat)")
	lines := s.readUntilMarker()
	res := Unknown
	for _, l := range lines {
		if l == "sat" {
			res = Sat
		} else if l == "unsat" {
			res = Unsat
		}
	}
	s.Stats.Queries++
	out := make(map[string]uint64)
	if res == Sat && len(vars) > 0 {
		// ask in chunks to keep lines short
		for i := 0; i < len(vars); i += 50 {
			j := i + 50
			if j > len(vars) {
				j = len(vars)
			}
			s.send("(get-value (" + strings.Join(vrefs[i:j], " ") + "))")
			text := strings.Join(s.readUntilMarker(), " ")
			vals := parseValues(text)
			for k, v := range vars[i:j] {
				if k < len(vals) {
					out[v.Name] = vals[k]
				}
			}
		}
	}
	s.send("(pop 1)")
	return out, res
}

// parseValues extracts, in order, the value of each pair of a get-value answer.
func parseValues(text string) []uint64 {
	var vals []uint64
	// tokens: we look for literals #x.., #b.., true, false, (_ bvN W)
	i := 0
	n := len(text)
	depth := 0
	for i < n {
		c := text[i]
		switch {
		case c == '(':
			depth++
			i++
			if depth == 3 && strings.HasPrefix(text[i:], "- ") {
				j := i + 2
				k := j
				for k < n && text[k] >= '0' && text[k] <= '9' {
					k++
				}
				v, _ := strconv.ParseUint(text[j:k], 10, 64)
				vals = append(vals, uint64(-int64(v)))
				i = k
			} else if depth == 3 && strings.HasPrefix(text[i:], "_ bv") {
				j := i + 4
				k := j
				for k < n && text[k] >= '0' && text[k] <= '9' {
					k++
				}
				v, _ := strconv.ParseUint(text[j:k], 10, 64)
				vals = append(vals, v)
				i = k
			}
		case c == ')':
			depth--
			i++
		case c == '|':
			j := strings.IndexByte(text[i+1:], '|')
			if j < 0 {
				return vals
			}
			i += j + 2
		case c == '#' && depth == 2:
			j := i + 2
			for j < n && text[j] != ')' && text[j] != ' ' {
				j++
			}
			base := 16
			if text[i+1] == 'b' {
				base = 2
			}
			v, _ := strconv.ParseUint(text[i+2:j], base, 64)
			vals = append(vals, v)
			i = j
		case depth == 2 && c >= '0' && c <= '9' && i > 0 && text[i-1] == ' ':
			j := i
			for j < n && text[j] >= '0' && text[j] <= '9' {
				j++
			}
			v, _ := strconv.ParseUint(text[i:j], 10, 64)
			vals = append(vals, v)
			i = j
		case depth == 2 && strings.HasPrefix(text[i:], "true") && (i+4 >= n || text[i+4] == ')'):
			vals = append(vals, 1)
			i += 4
		case depth == 2 && strings.HasPrefix(text[i:], "false") && (i+5 >= n || text[i+5] == ')'):
			vals = append(vals, 0)
			i += 5
		default:
			i++
		}
	}
	return vals
}
