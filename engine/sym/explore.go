package sym

import (
	"fmt"
	"os"
	"runtime/debug"
	"sort"
	"strings"
	"sync"
	"time"

	"golang.org/x/tools/go/ssa"
)

// Decision is one recorded choice of a path: a Boolean branch, an n-way
// concrete choice (scheduler, case split) or a concretised term value.
type Decision struct {
	Kind byte   // 'b' branch, 'c' choice, 'v' value
	Val  uint64 // taken value
	Excl []uint64
	Open bool // for 'v': value not chosen yet (alternative with exclusions)
}

// Config controls one exploration job.
type Config struct {
	Workers      int
	MaxPaths     int64
	MaxDecisions int   // per path
	MaxSteps     int64 // per path (SSA instructions)
	MaxDepth     int   // call depth
	DelayBound   int
	MapOrder     int      // explore iteration orders of maps with at most this many entries (0: insertion order)
	MapOrderIn   []string // ... for range statements in functions whose name contains one of these
	Params       map[string]int64 // concrete shape parameters visible to the harness (verifParam)
	Known        []KnownPred      // open known-finding predicates
	Witnesses    int              // keep up to this many models of completed paths per cover id (validated natively by the driver)
	Transcript   string
	Verbose      bool
	MaxViolations int
	TimeBudget   time.Duration
	ConcreteClock bool // discrete-event time instead of a symbolic clock
}

// KnownPred is an open known finding: a DNF predicate over nondet/tag names.
type KnownPred struct {
	ID      string     `json:"id"`
	FailID  string     `json:"fail_id"`
	Clauses [][]Atom   `json:"clauses"`
}

type Atom struct {
	Name string `json:"name"`
	Op   string `json:"op"` // == != < <= > >=  (unsigned for bytes/choices, signed otherwise)
	Val  int64  `json:"val"`
}

// Violation is a failed assertion together with a model.
type Violation struct {
	ID      string            `json:"id"`
	Kind    string            `json:"kind"` // assert | panic | deadlock | fatal
	Msg     string            `json:"msg"`
	Model   map[string]uint64 `json:"model"`
	Log     []string          `json:"log"`
	Sched   []uint64          `json:"sched,omitempty"`
	Known   string            `json:"known,omitempty"` // id of the known finding that explains it
	Where   string            `json:"where,omitempty"`
	Params  map[string]int64  `json:"params,omitempty"`
	Harness string            `json:"harness"`
}

// Witness is a model of a path that completed without violation, together
// with the covers it reached: the driver re-runs the harness natively on it
// and compares (validation of the encoding and of the stubs).
type Witness struct {
	Model   map[string]uint64 `json:"model"`
	Covers  []string          `json:"covers"`
	Sched   []uint64          `json:"sched,omitempty"`
	Params  map[string]int64  `json:"params,omitempty"`
	Harness string            `json:"harness"`
}

// Results aggregates one job.
type Results struct {
	Harness        string           `json:"harness"`
	Params         map[string]int64 `json:"params,omitempty"`
	Paths          int64            `json:"paths"`
	PathsCompleted int64            `json:"paths_completed"`
	PathsInfeasible int64           `json:"paths_infeasible"`
	Steps          int64            `json:"steps"`
	Blocks         int64            `json:"blocks"`
	Decisions      int64            `json:"decisions"`
	Covers         map[string]int64 `json:"covers"`
	Violations     []Violation      `json:"violations"`
	Witnesses      []Witness        `json:"witnesses,omitempty"`
	ViolationCount map[string]int64 `json:"violation_count"`
	KnownHits      map[string]int64 `json:"known_hits"`
	Inconclusive   []string         `json:"inconclusive"`
	Unsupported    map[string]int64 `json:"unsupported"`
	BoundExceeded  map[string]int64 `json:"bound_exceeded"`
	Queries        SolverStats      `json:"queries"`
	AssertQueries  int64            `json:"assert_queries"`
	CacheHits      int64            `json:"cache_hits"`
	AssertsHeld    int64            `json:"asserts_held"`
	Functions      map[string]int64 `json:"functions"`
	InstrKinds     map[string]int64 `json:"instr_kinds"`
	Intrinsics     map[string]int64 `json:"intrinsics"`
	StubsUsed      map[string]int64 `json:"stubs_used"`
	OpaqueCalls    map[string]int64 `json:"opaque_calls"`
	InitWarnings   map[string]int64 `json:"init_warnings"`
	ForkSites      map[string]int64 `json:"fork_sites"`
	Samples        []map[string]interface{} `json:"samples"`
	WallS          float64          `json:"wall_s"`
	Aborted        string           `json:"aborted,omitempty"`
}

func newResults() *Results {
	return &Results{Covers: map[string]int64{}, ViolationCount: map[string]int64{}, KnownHits: map[string]int64{},
		Unsupported: map[string]int64{}, BoundExceeded: map[string]int64{}, Functions: map[string]int64{},
		InstrKinds: map[string]int64{}, Intrinsics: map[string]int64{}, StubsUsed: map[string]int64{},
		OpaqueCalls: map[string]int64{}, InitWarnings: map[string]int64{}, ForkSites: map[string]int64{}}
}

// Engine holds the program and the exploration state of one job.
type Engine struct {
	Prog   *ssa.Program
	Stubs  map[string]*ssa.Function // qualified name -> replacement
	Opaque map[string]bool          // package path -> calls return zero
	NoInit map[string]bool
	Pure   map[string]bool // functions evaluated per alternative of a finite-alphabet argument (lifting)
	Embeds map[*ssa.Global][]byte
	Cfg    Config

	infoMu sync.Mutex
	globUse map[*ssa.Function]int8
	infos  map[*ssa.Function]*fnInfo

	witnessCount map[string]int

	mu      sync.Mutex
	cond    *sync.Cond
	work    [][][]Decision // per-worker LIFO stacks; idle workers steal the oldest item of the fullest stack
	busy    int
	stop    bool
	res     *Results
	started time.Time
	rtTypes rtTypes
}

type undoRec struct {
	p   *Value
	old Value
}

// Worker owns a solver process and a private heap of package globals.
type Worker struct {
	eng      *Engine
	id       int
	solver   *Solver
	globals  map[*ssa.Global]*Value
	initDone map[*ssa.Package]bool
	undo     []undoRec
	undoFns  []func()
	inInit   int
	epoch    int64
	res      *Results // worker-local counters merged at the end
	coverSeen map[string]bool
	lastTrace []Decision
	initFailed map[string]bool
	interned  map[string]*Value
}

// engine-level control flow (Go panics of these types unwind the interpreter)
type pathEnd struct{ reason string }      // path finished (normally, assume false, violation recorded...)
type threadKilled struct{}               // thread torn down at path end
type unsupported struct{ what string }   // construct the engine cannot execute
type boundExceeded struct{ what string } // unwinding assertion failed
type initAbort struct{ what string }
type crashUnwind struct{}              // abrupt process stop: unwinds without running deferred calls

// Path is the state of one execution path.
type Path struct {
	w         *Worker
	eng       *Engine
	prefix    []Decision
	pos       int
	trace     []Decision
	nondet    []*Term
	ndCount   map[string]int
	tags      map[string]*Term
	tagOrder  []string
	threads   []*Thread
	cur       *Thread
	delays    int
	steps     int64
	blocks    int64
	log       []string
	dead      bool
	wg        sync.WaitGroup
	done      chan interface{} // receives the terminating panic value (or nil)
	covers    []string
	softCovers []string // covers reached under a satisfiable (not valid) condition
	clock     *Term
	clockN    int
	syncSt    map[*Value]*syncState
	atomVals  map[*Value]Value
	chanN     int
	ndetSeq   int
	outcome   string
	timers    []*Chan
	panics    []string // recovered Go panics (visible to harness)
	symCount  int
	crashCatch int
	objN      int
	afterFunc []afterFuncRec
	known     map[string]bool
	concVals  map[string]uint64
	pending   []pendAssert
}

type pendAssert struct {
	cond *Term
	id   string
}

// Run explores harness function fn.
func (e *Engine) Run(fn *ssa.Function) *Results {
	e.cond = sync.NewCond(&e.mu)
	e.res = newResults()
	e.witnessCount = map[string]int{}
	e.res.Harness = fn.Name()
	e.res.Params = e.Cfg.Params
	e.started = time.Now()
	e.work = make([][][]Decision, max(1, e.Cfg.Workers))
	e.work[0] = [][]Decision{nil}
	if e.infos == nil {
		e.infos = make(map[*ssa.Function]*fnInfo)
	}
	e.initRT()
	n := e.Cfg.Workers
	if n <= 0 {
		n = 1
	}
	var wg sync.WaitGroup
	for i := 0; i < n; i++ {
		wg.Add(1)
		go func(id int) {
			defer wg.Done()
			w := &Worker{eng: e, id: id, globals: map[*ssa.Global]*Value{}, initDone: map[*ssa.Package]bool{}, res: newResults(), coverSeen: map[string]bool{}}
			tr := ""
			if e.Cfg.Transcript != "" {
				tr = fmt.Sprintf("%s.%d.smt2", e.Cfg.Transcript, id)
			}
			s, err := NewSolver(tr)
			if err != nil {
				e.mu.Lock()
				e.res.Inconclusive = append(e.res.Inconclusive, "solver start: "+err.Error())
				e.stop = true
				e.cond.Broadcast()
				e.mu.Unlock()
				return
			}
			w.solver = s
			defer s.Close()
			w.loop(fn)
			e.mergeWorker(w)
		}(i)
	}
	wg.Wait()
	e.res.WallS = time.Since(e.started).Seconds()
	sort.Slice(e.res.Violations, func(i, j int) bool { return e.res.Violations[i].ID < e.res.Violations[j].ID })
	return e.res
}

func addCounts(dst, src map[string]int64) {
	for k, v := range src {
		dst[k] += v
	}
}

func (e *Engine) mergeWorker(w *Worker) {
	e.mu.Lock()
	defer e.mu.Unlock()
	r, s := e.res, w.res
	r.Steps += s.Steps
	r.Blocks += s.Blocks
	r.Decisions += s.Decisions
	r.AssertQueries += s.AssertQueries
	r.CacheHits += s.CacheHits
	r.AssertsHeld += s.AssertsHeld
	addCounts(r.Functions, s.Functions)
	addCounts(r.InstrKinds, s.InstrKinds)
	addCounts(r.Intrinsics, s.Intrinsics)
	addCounts(r.StubsUsed, s.StubsUsed)
	addCounts(r.OpaqueCalls, s.OpaqueCalls)
	addCounts(r.InitWarnings, s.InitWarnings)
	addCounts(r.ForkSites, s.ForkSites)
	st := w.solver.Stats
	r.Queries.Queries += st.Queries
	r.Queries.Sat += st.Sat
	r.Queries.Unsat += st.Unsat
	r.Queries.Unknown += st.Unknown
	r.Queries.Errors += st.Errors
	r.Queries.Time += st.Time
	if st.MaxQueryTime > r.Queries.MaxQueryTime {
		r.Queries.MaxQueryTime = st.MaxQueryTime
	}
}

func (w *Worker) loop(fn *ssa.Function) {
	e := w.eng
	for {
		e.mu.Lock()
		for e.queued() == 0 && e.busy > 0 && !e.stop {
			e.cond.Wait()
		}
		if e.stop || e.queued() == 0 {
			e.cond.Broadcast()
			e.mu.Unlock()
			return
		}
		var prefix []Decision
		if own := e.work[w.id]; len(own) > 0 {
			prefix = own[len(own)-1]
			e.work[w.id] = own[:len(own)-1]
		} else {
			best := -1
			for i, st := range e.work {
				if len(st) > 0 && (best < 0 || len(st) > len(e.work[best])) {
					best = i
				}
			}
			prefix = e.work[best][0]
			e.work[best] = e.work[best][1:]
		}
		e.busy++
		e.res.Paths++
		np := e.res.Paths
		if e.Cfg.MaxPaths > 0 && np > e.Cfg.MaxPaths {
			e.res.Aborted = fmt.Sprintf("path budget %d exceeded", e.Cfg.MaxPaths)
			e.stop = true
		}
		if e.Cfg.TimeBudget > 0 && time.Since(e.started) > e.Cfg.TimeBudget {
			e.res.Aborted = fmt.Sprintf("time budget %v exceeded", e.Cfg.TimeBudget)
			e.stop = true
		}
		stop := e.stop
		e.mu.Unlock()
		if !stop {
			w.runPath(fn, prefix)
		}
		e.mu.Lock()
		e.busy--
		e.cond.Broadcast()
		e.mu.Unlock()
		if e.Cfg.Verbose && np%5000 == 0 {
			fmt.Fprintf(os.Stderr, "[symgo] %s: %d paths, %d queued, %.1fs\n", fn.Name(), np, e.queued(), time.Since(e.started).Seconds())
		}
	}
}

func (e *Engine) queued() int {
	n := 0
	for _, st := range e.work {
		n += len(st)
	}
	return n
}

func (e *Engine) pushWork(wid int, prefix []Decision) {
	e.mu.Lock()
	e.work[wid] = append(e.work[wid], prefix)
	e.cond.Signal()
	e.mu.Unlock()
}

// runPath executes the harness once along the given decision prefix.
func (w *Worker) runPath(fn *ssa.Function, prefix []Decision) {
	e := w.eng
	w.epoch++
	p := &Path{w: w, eng: e, prefix: prefix, ndCount: map[string]int{}, tags: map[string]*Term{},
		known: map[string]bool{}, concVals: map[string]uint64{}, done: make(chan interface{}, 1), syncSt: map[*Value]*syncState{}, atomVals: map[*Value]Value{}}
	shared := -1
	if w.lastTrace != nil {
		shared = 0
		for shared < len(prefix) && shared < len(w.lastTrace) && sameDecision(prefix[shared], w.lastTrace[shared]) {
			shared++
		}
	}
	w.solver.BeginPath(shared)
	if e.Cfg.ConcreteClock {
		p.clock = BV(64, 1<<40)
	} else {
		p.clock = p.freshVar("clock", IntW)
		p.assume(Cmp(OpSle, IntC(1<<40), p.clock))
		p.assume(Cmp(OpSle, p.clock, IntC(1<<41)))
	}
	main := p.newThread()
	p.cur = main
	p.wg.Add(1)
	go func() {
		defer p.wg.Done()
		var pv interface{}
		func() {
			defer func() { pv = recover() }()
			<-main.resume
			main.callFn(nil, fn, nil, nil)
			// a harness that returns normally ends the path
			p.flushAsserts()
			p.witness()
			pv = nil
		}()
		if pv == nil {
			pv = pathEnd{"return"}
		}
		if _, ok := pv.(threadKilled); ok {
			return
		}
		if pe, ok := pv.(*GoPanic); ok && !p.dead {
			// uncaught Go panic in the main thread
			pv = p.reportPanic(main, pe)
		}
		select {
		case p.done <- pv:
		default:
		}
	}()
	main.resume <- struct{}{}
	pv := <-p.done
	// tear down all threads
	p.dead = true
	for _, th := range p.threads {
		select {
		case th.resume <- struct{}{}:
		default:
		}
	}
	p.wg.Wait()
	// undo heap effects on objects that outlive the path
	for i := len(w.undo) - 1; i >= 0; i-- {
		*w.undo[i].p = w.undo[i].old
	}
	w.undo = w.undo[:0]
	for i := len(w.undoFns) - 1; i >= 0; i-- {
		w.undoFns[i]()
	}
	w.undoFns = w.undoFns[:0]
	w.solver.EndPath()
	w.lastTrace = p.trace
	if w.solver.Mismatch {
		w.solver.Mismatch = false
		pv = engineBug{val: "replay of a shared prefix asserted different terms (engine nondeterminism)", stack: ""}
		w.lastTrace = nil
	}
	w.res.Steps += p.steps
	w.res.Blocks += p.blocks
	w.res.Decisions += int64(len(p.trace))

	e.mu.Lock()
	defer e.mu.Unlock()
	switch v := pv.(type) {
	case pathEnd:
		switch v.reason {
		case "infeasible":
			e.res.PathsInfeasible++
		default:
			e.res.PathsCompleted++
			if os.Getenv("SYMGO_PATHLOG") != "" {
				fmt.Fprintf(os.Stderr, "PATHLOG %s | %v\n", v.reason, p.log)
			}
			for _, c := range p.covers {
				e.res.Covers[c]++
			}
			if len(e.res.Samples) < 6 && len(p.log) > 0 {
				e.res.Samples = append(e.res.Samples, map[string]interface{}{"outcome": v.reason, "decisions": len(p.trace), "log": trimLog(p.log, 40)})
			}
		}
	case unsupported:
		e.res.Unsupported[v.what]++
	case boundExceeded:
		e.res.BoundExceeded[v.what]++
	case engineBug:
		msg := "engine error: " + v.String()
		if len(msg) > 3000 {
			msg = msg[:3000]
		}
		if len(e.res.Inconclusive) < 20 {
			e.res.Inconclusive = append(e.res.Inconclusive, msg)
		}
	default:
		msg := fmt.Sprintf("engine error: %v", pv)
		if len(e.res.Inconclusive) < 20 {
			e.res.Inconclusive = append(e.res.Inconclusive, msg)
		}
	}
}

func sameDecision(a, b Decision) bool {
	if a.Kind != b.Kind || a.Val != b.Val || a.Open != b.Open || len(a.Excl) != len(b.Excl) {
		return false
	}
	for i := range a.Excl {
		if a.Excl[i] != b.Excl[i] {
			return false
		}
	}
	return true
}

func trimLog(l []string, n int) []string {
	if len(l) <= n {
		return l
	}
	out := append([]string{}, l[:n/2]...)
	out = append(out, "…")
	return append(out, l[len(l)-n/2:]...)
}

// record starts a new solver level and appends the decision to the trace.
func (p *Path) record(d Decision) {
	p.w.solver.Decision()
	p.trace = append(p.trace, d)
}

func (p *Path) freshVar(name string, w uint8) *Term {
	p.symCount++
	return NewVar(fmt.Sprintf("%s!%d", name, p.symCount), w)
}

// assume adds t to the path condition without checking feasibility.
func (p *Path) assume(t *Term) {
	p.w.solver.Assert(t)
}

// stop ends the current path.
func (p *Path) stop(reason string) {
	panic(pathEnd{reason})
}

// branch decides a symbolic condition: returns the direction this path takes
// and schedules the other direction when it is feasible too.
func (p *Path) branch(cond *Term) bool {
	if cond.Op == OpConst {
		return cond.Val != 0
	}
	// literal already decided on this path?
	neg := false
	lit := cond
	if lit.Op == OpNot {
		neg, lit = true, lit.Args[0]
	}
	k := lit.Key()
	if k != "" {
		if v, ok := p.known[k]; ok {
			p.w.res.CacheHits++
			return v != neg
		}
	}
	r := p.branch1(cond)
	if k != "" {
		p.known[k] = r != neg
	}
	return r
}

func (p *Path) branch1(cond *Term) bool {
	s := p.w.solver
	if p.pos < len(p.prefix) {
		d := p.prefix[p.pos]
		if d.Kind != 'b' {
			panic(fmt.Sprintf("replay divergence: expected %c decision, got branch at %d", d.Kind, p.pos))
		}
		p.pos++
		p.record(d)
		if d.Val != 0 {
			s.Assert(cond)
			return true
		}
		s.Assert(Not(cond))
		return false
	}
	if len(p.trace) >= p.eng.Cfg.MaxDecisions {
		panic(boundExceeded{fmt.Sprintf("decisions per path > %d", p.eng.Cfg.MaxDecisions)})
	}
	p.pos++
	rt := s.CheckWith(cond)
	if rt == Unsat {
		p.record(Decision{Kind: 'b', Val: 0})
		s.Assert(Not(cond))
		return false
	}
	rf := s.CheckWith(Not(cond))
	if rf == Unsat {
		p.record(Decision{Kind: 'b', Val: 1})
		s.Assert(cond)
		return true
	}
	if rt == Unknown || rf == Unknown {
		p.eng.noteInconclusive("feasibility query unknown (branch kept)")
	}
	alt := make([]Decision, len(p.trace)+1)
	copy(alt, p.trace)
	alt[len(p.trace)] = Decision{Kind: 'b', Val: 0}
	p.eng.pushWork(p.w.id, alt)
	p.record(Decision{Kind: 'b', Val: 1})
	s.Assert(cond)
	if th := p.cur; th != nil && th.top != nil {
		site := th.top.fn.String()
		if th.curIns != nil && th.curIns.Pos().IsValid() {
			site += fmt.Sprintf(":%d", th.top.fn.Prog.Fset.Position(th.curIns.Pos()).Line)
		}
		p.w.res.ForkSites[site]++
	}
	return true
}

// choose makes an n-way concrete choice (no solver involved); alternative
// alt values are scheduled as separate paths. Returns the chosen index.
func (p *Path) choose(n int) int {
	if n <= 1 {
		return 0
	}
	if p.pos < len(p.prefix) {
		d := p.prefix[p.pos]
		if d.Kind != 'c' {
			panic(fmt.Sprintf("replay divergence: expected %c decision, got choice at %d", d.Kind, p.pos))
		}
		p.pos++
		p.record(d)
		return int(d.Val)
	}
	if len(p.trace) >= p.eng.Cfg.MaxDecisions {
		panic(boundExceeded{fmt.Sprintf("decisions per path > %d", p.eng.Cfg.MaxDecisions)})
	}
	p.pos++
	for k := n - 1; k >= 1; k-- {
		alt := make([]Decision, len(p.trace)+1)
		copy(alt, p.trace)
		alt[len(p.trace)] = Decision{Kind: 'c', Val: uint64(k)}
		p.eng.pushWork(p.w.id, alt)
	}
	p.record(Decision{Kind: 'c', Val: 0})
	return 0
}

// concretize forks over the feasible values of t and returns this path's value.
func (p *Path) concretize(t *Term) uint64 {
	if t.Op == OpConst {
		return t.Val
	}
	k := t.Key()
	if k != "" {
		if v, ok := p.concVals[k]; ok {
			return v
		}
	}
	v := p.concretize1(t)
	if k != "" {
		p.concVals[k] = v
	}
	return v
}

// concretizeN forks over the feasible values among 0..n-1 of t (t is known to
// be < n); unlike concretize it leaves no trailing infeasible alternative.
func (p *Path) concretizeN(t *Term, n int) uint64 {
	if t.Op == OpConst {
		return t.Val
	}
	k := t.Key()
	if k != "" {
		if v, ok := p.concVals[k]; ok {
			return v
		}
	}
	s := p.w.solver
	var v uint64
	if p.pos < len(p.prefix) {
		d := p.prefix[p.pos]
		if d.Kind != 'v' || d.Open {
			panic(fmt.Sprintf("replay divergence: expected closed value decision at %d", p.pos))
		}
		p.pos++
		p.record(d)
		v = d.Val
	} else {
		if len(p.trace) >= p.eng.Cfg.MaxDecisions {
			panic(boundExceeded{fmt.Sprintf("decisions per path > %d", p.eng.Cfg.MaxDecisions)})
		}
		p.pos++
		var feas []uint64
		for i := 0; i < n; i++ {
			r := s.CheckWith(Eq(t, BV(t.W, uint64(i))))
			if r == Unknown {
				p.eng.noteInconclusive("feasibility query unknown (value kept)")
			}
			if r != Unsat {
				feas = append(feas, uint64(i))
			}
		}
		if len(feas) == 0 {
			p.stop("infeasible")
		}
		for j := len(feas) - 1; j >= 1; j-- {
			alt := make([]Decision, len(p.trace)+1)
			copy(alt, p.trace)
			alt[len(p.trace)] = Decision{Kind: 'v', Val: feas[j]}
			p.eng.pushWork(p.w.id, alt)
		}
		v = feas[0]
		p.record(Decision{Kind: 'v', Val: v})
	}
	s.Assert(Eq(t, BV(t.W, v)))
	if k != "" {
		p.concVals[k] = v
	}
	return v
}

func (p *Path) concretize1(t *Term) uint64 {
	s := p.w.solver
	var excl []uint64
	if p.pos < len(p.prefix) {
		d := p.prefix[p.pos]
		if d.Kind != 'v' {
			panic(fmt.Sprintf("replay divergence: expected %c decision, got value at %d", d.Kind, p.pos))
		}
		p.pos++
		if !d.Open {
			p.record(d)
			s.Assert(Eq(t, BV(t.W, d.Val)))
			return d.Val
		}
		excl = d.Excl
	} else {
		if len(p.trace) >= p.eng.Cfg.MaxDecisions {
			panic(boundExceeded{fmt.Sprintf("decisions per path > %d", p.eng.Cfg.MaxDecisions)})
		}
		p.pos++
	}
	var extra []*Term
	for _, x := range excl {
		extra = append(extra, Not(Eq(t, BV(t.W, x))))
	}
	probe := p.freshVar("cz", t.W)
	extra = append(extra, Eq(probe, t))
	m, r := s.Model([]*Term{probe}, extra...)
	if r == Unsat {
		p.stop("infeasible")
	}
	if r == Unknown {
		p.eng.noteInconclusive("concretize query unknown")
		p.stop("infeasible")
	}
	v := m[probe.Name]
	// is another value possible?
	nexcl := append(append([]uint64{}, excl...), v)
	alt := make([]Decision, len(p.trace)+1)
	copy(alt, p.trace)
	alt[len(p.trace)] = Decision{Kind: 'v', Open: true, Excl: nexcl}
	p.eng.pushWork(p.w.id, alt)
	p.record(Decision{Kind: 'v', Val: v})
	s.Assert(Eq(t, BV(t.W, v)))
	return v
}

func (e *Engine) noteInconclusive(msg string) {
	e.mu.Lock()
	if len(e.res.Inconclusive) < 50 {
		e.res.Inconclusive = append(e.res.Inconclusive, msg)
	}
	e.mu.Unlock()
}

// predTerm builds the term of a known-finding predicate on this path (false
// when a referenced name was not drawn on the path).
func (p *Path) predTerm(k KnownPred) *Term {
	res := FalseT
	for _, clause := range k.Clauses {
		c := TrueT
		for _, a := range clause {
			t := p.lookupName(a.Name)
			if t == nil {
				c = FalseT
				break
			}
			var cv *Term
			if t.W == 0 {
				cv = Bool(a.Val != 0)
			} else {
				cv = BV(t.W, uint64(a.Val))
			}
			var at *Term
			switch a.Op {
			case "==":
				at = Eq(t, cv)
			case "!=":
				at = Not(Eq(t, cv))
			case "<":
				at = Cmp(OpSlt, t, cv)
			case "<=":
				at = Cmp(OpSle, t, cv)
			case ">":
				at = Cmp(OpSlt, cv, t)
			case ">=":
				at = Cmp(OpSle, cv, t)
			default:
				at = FalseT
			}
			c = And(c, at)
		}
		res = Or(res, c)
	}
	return res
}

func (p *Path) lookupName(name string) *Term {
	if t, ok := p.tags[name]; ok {
		return t
	}
	if !strings.Contains(name, "#") {
		name += "#0"
	}
	for _, v := range p.nondet {
		if v.Name == name {
			return v
		}
	}
	return nil
}

// witness keeps a model of this completed path if one of its covers still
// lacks witnesses.
func (p *Path) witness() {
	e := p.eng
	if e.Cfg.Witnesses <= 0 || len(p.covers) == 0 || (len(p.threads) > 1 && e.Cfg.DelayBound > 0) {
		return
	}
	e.mu.Lock()
	need := false
	for _, c := range p.covers {
		if e.witnessCount[c] < e.Cfg.Witnesses {
			need = true
		}
	}
	if need {
		for _, c := range p.covers {
			e.witnessCount[c]++
		}
	}
	e.mu.Unlock()
	if !need {
		return
	}
	vars := append([]*Term{}, p.nondet...)
	m, r := p.w.solver.Model(vars)
	if r != Sat {
		return
	}
	var sched []uint64
	for _, d := range p.trace {
		if d.Kind == 'c' {
			sched = append(sched, d.Val)
		}
	}
	var hard []string
	for _, c := range p.covers {
		soft := false
		for _, sc := range p.softCovers {
			if sc == c {
				soft = true
			}
		}
		if !soft {
			hard = append(hard, c)
		}
	}
	w := Witness{Model: m, Covers: hard, Sched: sched, Params: e.Cfg.Params, Harness: e.res.Harness}
	e.mu.Lock()
	e.res.Witnesses = append(e.res.Witnesses, w)
	e.mu.Unlock()
}

// fail records a violation (with a model, outside the open known findings if
// possible) and ends the path.
func (p *Path) fail(kind, id, msg string) {
	p.violation(kind, id, msg, nil)
	p.stop("violation:" + id)
}

// violation asks the solver for a model of (path condition ∧ extra) that lies
// outside every open known-finding predicate for this assertion id; if there is
// none, for one inside a known finding. Returns false when pc ∧ extra is
// unsatisfiable (the assertion holds on this path).
func (p *Path) violation(kind, id, msg string, extra *Term) bool {
	e := p.eng
	s := p.w.solver
	p.w.res.AssertQueries++
	var base []*Term
	if extra != nil {
		base = append(base, extra)
	}
	vars := append([]*Term{}, p.nondet...)
	for _, n := range p.tagOrder {
		t := p.tags[n]
		if t.Op != OpConst {
			pv := NewVar("tag:"+n, t.W)
			base = append(base, Eq(pv, t))
			vars = append(vars, pv)
		}
	}
	var applicable []KnownPred
	negs := append([]*Term{}, base...)
	for _, k := range e.Cfg.Known {
		if k.FailID == id || (strings.HasSuffix(k.FailID, "*") && strings.HasPrefix(id, strings.TrimSuffix(k.FailID, "*"))) {
			applicable = append(applicable, k)
			negs = append(negs, Not(p.predTerm(k)))
		}
	}
	m, r := s.Model(vars, negs...)
	knownID := ""
	if r == Unsat && len(applicable) > 0 {
		// every model of this path lies inside a known finding: find which
		for _, k := range applicable {
			m2, r2 := s.Model(vars, append(append([]*Term{}, base...), p.predTerm(k))...)
			if r2 == Sat {
				m, r, knownID = m2, r2, k.ID
				break
			}
			if r2 == Unknown {
				r = Unknown
			}
		}
	}
	if r == Unknown {
		e.noteInconclusive("assertion query unknown at " + id)
		return false
	}
	if r == Unsat {
		return false
	}
	for _, n := range p.tagOrder {
		if t := p.tags[n]; t.Op == OpConst {
			m["tag:"+n] = t.Val
		}
	}
	var sched []uint64
	for _, d := range p.trace {
		if d.Kind == 'c' {
			sched = append(sched, d.Val)
		}
	}
	v := Violation{ID: id, Kind: kind, Msg: msg, Model: m, Log: trimLog(p.log, 200), Known: knownID, Sched: sched,
		Params: e.Cfg.Params, Harness: e.res.Harness}
	e.mu.Lock()
	key := id
	if knownID != "" {
		key = id + " [known " + knownID + "]"
		e.res.KnownHits[knownID]++
	}
	e.res.ViolationCount[key]++
	if e.res.ViolationCount[key] <= 3 {
		e.res.Violations = append(e.res.Violations, v)
	}
	e.mu.Unlock()
	return true
}

// flushAsserts discharges the pending verifAssert obligations: one query for
// their conjunction, individual queries only if that one is satisfiable.
func (p *Path) flushAsserts() {
	if len(p.pending) == 0 {
		return
	}
	pend := p.pending
	p.pending = nil
	conj := TrueT
	for _, a := range pend {
		conj = And(conj, a.cond)
	}
	p.w.res.AssertQueries++
	r := p.w.solver.CheckWith(Not(conj))
	if r == Unsat {
		p.w.res.AssertsHeld += int64(len(pend))
		return
	}
	for _, a := range pend {
		if p.violation("assert", a.id, "", Not(a.cond)) {
			p.logf("FAIL %s", a.id)
		} else {
			p.w.res.AssertsHeld++
		}
	}
}

func (p *Path) reportPanic(th *Thread, gp *GoPanic) (ret interface{}) {
	defer func() { ret = recover() }()
	p.flushAsserts()
	msg := th.panicString(gp)
	id := "panic"
	p.logf("PANIC %s", msg)
	p.fail("panic", id, msg+"\n"+gp.where)
	return nil
}

func (p *Path) logf(format string, args ...interface{}) {
	if len(p.log) < 2000 {
		p.log = append(p.log, fmt.Sprintf(format, args...))
	}
}

func stackString() string { return string(debug.Stack()) }
