package sym

import (
	"go/types"

	"golang.org/x/tools/go/ssa"
)

// Abstract time: time.Time values carry the symbolic nanosecond clock in their
// "ext" field (wall = 0, loc = nil). The real wall/ext encoding and the *1e9
// arithmetic of package time are deliberately not executed.

func (p *Path) timeValue(clock *Term) Value {
	return Struct{BV(64, 0), clock, (*Value)(nil)}
}

func timeExt(v Value) *Term { return v.(Struct)[1].(*Term) }

func (e *Engine) timeType(name string) *types.Named {
	p := e.Prog.ImportedPackage("time")
	if p == nil {
		return nil
	}
	t := p.Type(name)
	if t == nil {
		return nil
	}
	return t.Type().(*types.Named)
}

func setField(s Struct, t types.Type, name string, v Value) {
	st := t.Underlying().(*types.Struct)
	for i := 0; i < st.NumFields(); i++ {
		if st.Field(i).Name() == name {
			s[i] = v
			return
		}
	}
	panic("setField: no field " + name)
}

func getField(s Struct, t types.Type, name string) Value {
	st := t.Underlying().(*types.Struct)
	for i := 0; i < st.NumFields(); i++ {
		if st.Field(i).Name() == name {
			return s[i]
		}
	}
	panic("getField: no field " + name)
}

func (p *Path) newTimerChan(d *Term, period *Term) *Chan {
	ch := p.newChan(1)
	ch.timer = &timerState{deadline: Bin(OpAdd, p.clock, d), active: true, period: period}
	p.timers = append(p.timers, ch)
	return ch
}

func (th *Thread) newTimerObj(tname string, ch *Chan) Value {
	tt := th.p.eng.timeType(tname)
	s := zero(tt).(Struct)
	setField(s, tt, "C", ch)
	a := new(Value)
	*a = s
	return a
}

func timerChanOf(th *Thread, tv Value, tname string) *Chan {
	a := tv.(*Value)
	if a == nil {
		th.goPanicRT("invalid memory address or nil pointer dereference")
	}
	for _, r := range th.p.afterFunc {
		if r.timer == a {
			return r.ch
		}
	}
	ch, _ := getField((*a).(Struct), th.p.eng.timeType(tname), "C").(*Chan)
	return ch
}

func init() {
	reg("time.Now", func(th *Thread, fr *frame, fn *ssa.Function, args []Value) Value {
		th.p.advanceClock()
		return th.p.timeValue(th.p.clock)
	})
	reg("time.Since", func(th *Thread, fr *frame, fn *ssa.Function, args []Value) Value {
		th.p.advanceClock()
		return Bin(OpSub, th.p.clock, timeExt(args[0]))
	})
	reg("time.Until", func(th *Thread, fr *frame, fn *ssa.Function, args []Value) Value {
		th.p.advanceClock()
		return Bin(OpSub, timeExt(args[0]), th.p.clock)
	})
	reg("(time.Time).Sub", func(th *Thread, fr *frame, fn *ssa.Function, args []Value) Value {
		return Bin(OpSub, timeExt(args[0]), timeExt(args[1]))
	})
	reg("(time.Time).Add", func(th *Thread, fr *frame, fn *ssa.Function, args []Value) Value {
		return th.p.timeValue(Bin(OpAdd, timeExt(args[0]), args[1].(*Term)))
	})
	reg("(time.Time).Before", func(th *Thread, fr *frame, fn *ssa.Function, args []Value) Value {
		return Cmp(OpSlt, timeExt(args[0]), timeExt(args[1]))
	})
	reg("(time.Time).After", func(th *Thread, fr *frame, fn *ssa.Function, args []Value) Value {
		return Cmp(OpSlt, timeExt(args[1]), timeExt(args[0]))
	})
	reg("(time.Time).Equal", func(th *Thread, fr *frame, fn *ssa.Function, args []Value) Value {
		return Eq(timeExt(args[0]), timeExt(args[1]))
	})
	reg("(time.Time).Compare", func(th *Thread, fr *frame, fn *ssa.Function, args []Value) Value {
		a, b := timeExt(args[0]), timeExt(args[1])
		return Ite(Cmp(OpSlt, a, b), BV(64, ^uint64(0)), Ite(Eq(a, b), BV(64, 0), BV(64, 1)))
	})
	reg("(time.Time).IsZero", func(th *Thread, fr *frame, fn *ssa.Function, args []Value) Value {
		return Eq(timeExt(args[0]), IntC(0))
	})
	reg("(time.Time).UnixNano", func(th *Thread, fr *frame, fn *ssa.Function, args []Value) Value {
		return timeExt(args[0])
	})
	// seconds are modelled as ext >> 30 (monotone, not the real quotient by 1e9)
	reg("(time.Time).Unix", func(th *Thread, fr *frame, fn *ssa.Function, args []Value) Value {
		return Bin(OpSDiv, ToInt(timeExt(args[0])), IntC(1<<30))
	})
	reg("time.Unix", func(th *Thread, fr *frame, fn *ssa.Function, args []Value) Value {
		return th.p.timeValue(Bin(OpAdd, Bin(OpMul, ToInt(args[0].(*Term)), IntC(1<<30)), args[1].(*Term)))
	})
	ident := func(th *Thread, fr *frame, fn *ssa.Function, args []Value) Value { return args[0] }
	for _, n := range []string{"UTC", "Local", "In", "Truncate", "Round"} {
		reg("(time.Time)."+n, ident)
	}
	opaqueStr := func(th *Thread, fr *frame, fn *ssa.Function, args []Value) Value { return Str{S: "‹time›"} }
	reg("(time.Time).Format", opaqueStr)
	reg("(time.Time).String", opaqueStr)
	reg("(time.Time).GoString", opaqueStr)
	reg("time.Sleep", func(th *Thread, fr *frame, fn *ssa.Function, args []Value) Value {
		p := th.p
		if p.eng.Cfg.ConcreteClock {
			p.clock = Bin(OpAdd, p.clock, args[0].(*Term))
			th.schedPoint(nil, "Sleep")
			return nil
		}
		nc := p.freshVar("clock", IntW)
		p.assume(Cmp(OpSle, Bin(OpAdd, p.clock, args[0].(*Term)), nc))
		p.assume(Cmp(OpSle, p.clock, nc))
		p.assume(Cmp(OpSle, nc, IntC(1<<62)))
		p.clock = nc
		th.schedPoint(nil, "Sleep")
		return nil
	})
	reg("time.NewTimer", func(th *Thread, fr *frame, fn *ssa.Function, args []Value) Value {
		return th.newTimerObj("Timer", th.p.newTimerChan(args[0].(*Term), nil))
	})
	reg("time.After", func(th *Thread, fr *frame, fn *ssa.Function, args []Value) Value {
		return th.p.newTimerChan(args[0].(*Term), nil)
	})
	reg("time.NewTicker", func(th *Thread, fr *frame, fn *ssa.Function, args []Value) Value {
		d := args[0].(*Term)
		return th.newTimerObj("Ticker", th.p.newTimerChan(d, d))
	})
	reg("time.Tick", func(th *Thread, fr *frame, fn *ssa.Function, args []Value) Value {
		d := args[0].(*Term)
		return th.p.newTimerChan(d, d)
	})
	reg("(*time.Timer).Stop", func(th *Thread, fr *frame, fn *ssa.Function, args []Value) Value {
		ch := timerChanOf(th, args[0], "Timer")
		if ch == nil || ch.timer == nil {
			return FalseT
		}
		th.schedPoint(nil, "Timer.Stop")
		// has it fired already? (decides symbolically)
		th.p.timerPoll(ch)
		was := ch.timer.active
		ch.timer.active = false
		return Bool(was)
	})
	reg("(*time.Timer).Reset", func(th *Thread, fr *frame, fn *ssa.Function, args []Value) Value {
		ch := timerChanOf(th, args[0], "Timer")
		if ch == nil || ch.timer == nil {
			th.goPanicStr("time: Reset called on uninitialized Timer")
		}
		th.schedPoint(nil, "Timer.Reset")
		th.p.timerPoll(ch)
		was := ch.timer.active
		// go1.23 semantics: Reset drains a stale value
		ch.buf = nil
		ch.timer.active = true
		ch.timer.fired = false
		ch.timer.deadline = Bin(OpAdd, th.p.clock, args[1].(*Term))
		return Bool(was)
	})
	reg("(*time.Ticker).Stop", func(th *Thread, fr *frame, fn *ssa.Function, args []Value) Value {
		ch := timerChanOf(th, args[0], "Ticker")
		if ch != nil && ch.timer != nil {
			ch.timer.active = false
		}
		return nil
	})
	reg("(*time.Ticker).Reset", func(th *Thread, fr *frame, fn *ssa.Function, args []Value) Value {
		ch := timerChanOf(th, args[0], "Ticker")
		d := args[1].(*Term)
		ch.timer.active = true
		ch.timer.period = d
		ch.timer.deadline = Bin(OpAdd, th.p.clock, d)
		return nil
	})
	reg("time.AfterFunc", func(th *Thread, fr *frame, fn *ssa.Function, args []Value) Value {
		ch := th.p.newTimerChan(args[0].(*Term), nil)
		f := args[1]
		tobj := th.newTimerObj("Timer", ch)
		// the timer's own goroutine: waits for expiry, then runs f
		runner := &Native{Name: "AfterFunc", F: func(t2 *Thread, _ []Value) Value {
			_, ok := t2.chanRecv(ch)
			if ok {
				t2.call(nil, f, nil)
			}
			return nil
		}}
		// the channel of an AfterFunc timer is not visible to the program
		a := tobj.(*Value)
		setField((*a).(Struct), th.p.eng.timeType("Timer"), "C", (*Chan)(nil))
		th.p.afterFunc = append(th.p.afterFunc, afterFuncRec{timer: a, ch: ch})
		th.spawn(runner, nil, "AfterFunc")
		return tobj
	})
}

type afterFuncRec struct {
	timer *Value
	ch    *Chan
}
