// Package sym is a symbolic executor for go/ssa that discharges path
// feasibility and assertion queries with an SMT solver (SMT-LIB2 over a pipe).
package sym

import (
	"fmt"
	"strconv"
	"strings"
)

// Op is a term operator.
type Op uint8

const (
	OpConst Op = iota
	OpVar
	OpNot
	OpAnd
	OpOr
	OpIte
	OpEq
	OpAdd
	OpSub
	OpMul
	OpUDiv
	OpSDiv
	OpURem
	OpSRem
	OpBAnd
	OpBOr
	OpBXor
	OpBNot
	OpNeg
	OpShl
	OpLShr
	OpAShr
	OpUlt
	OpUle
	OpSlt
	OpSle
	OpZExt
	OpSExt
	OpExtract // aux = hi<<8|lo
	OpConcat
	OpApp // uninterpreted function application; name = function symbol
	OpBV2Int // Aux = 1 signed, 0 unsigned
	OpInt2BV // Aux = width
)

// IntW marks terms of the mathematical-integer sort. It is used for time
// values only (clock, deadlines, durations): difference constraints over Int
// are decided instantly, while the same chains over 64-bit bit-vectors (with
// wrap-around) time out. Assumption: time arithmetic does not overflow int64.
const IntW uint8 = 255

func IntC(v int64) *Term { return &Term{Op: OpConst, W: IntW, Val: uint64(v)} }

// ToInt converts a bit-vector term to the Int sort (signed interpretation
// unless it is a zero extension).
func ToInt(t *Term) *Term {
	if t.W == IntW {
		return t
	}
	switch t.Op {
	case OpConst:
		return IntC(t.SInt())
	case OpIte:
		return Ite(t.Args[0], ToInt(t.Args[1]), ToInt(t.Args[2]))
	case OpZExt:
		return &Term{Op: OpBV2Int, W: IntW, Args: []*Term{t.Args[0]}, Aux: 0}
	}
	return &Term{Op: OpBV2Int, W: IntW, Args: []*Term{t}, Aux: 1}
}

// ToBV converts an Int term to a bit-vector of width w.
func ToBV(t *Term, w uint8) *Term {
	if t.W != IntW {
		return Resize(t, w, true)
	}
	if t.Op == OpConst {
		return BV(w, t.Val)
	}
	if t.Op == OpBV2Int && t.Args[0].W == w {
		return t.Args[0]
	}
	return &Term{Op: OpInt2BV, W: w, Args: []*Term{t}, Aux: int(w)}
}

func coerce(a, b *Term) (*Term, *Term) {
	if a.W == IntW && b.W != IntW {
		return a, ToInt(b)
	}
	if b.W == IntW && a.W != IntW {
		return ToInt(a), b
	}
	return a, b
}

var opSMT = map[Op]string{
	OpNot: "not", OpAnd: "and", OpOr: "or", OpIte: "ite", OpEq: "=",
	OpAdd: "bvadd", OpSub: "bvsub", OpMul: "bvmul", OpUDiv: "bvudiv", OpSDiv: "bvsdiv",
	OpURem: "bvurem", OpSRem: "bvsrem", OpBAnd: "bvand", OpBOr: "bvor", OpBXor: "bvxor",
	OpBNot: "bvnot", OpNeg: "bvneg", OpShl: "bvshl", OpLShr: "bvlshr", OpAShr: "bvashr",
	OpUlt: "bvult", OpUle: "bvule", OpSlt: "bvslt", OpSle: "bvsle", OpConcat: "concat",
}

// Term is a Boolean (W==0) or bit-vector (W in 1..64) SMT term.
// Terms are immutable.
type Term struct {
	Op   Op
	W    uint8 // 0 = Bool
	Val  uint64
	Args []*Term
	Name string
	Aux  int
	id   int64 // assigned lazily per solver scope when emitted
	key  string
	size int32
}

// Key returns a canonical structural key for small terms ("" for big ones).
func (t *Term) Key() string {
	if t.key != "" || t.size < 0 {
		return t.key
	}
	switch t.Op {
	case OpConst:
		t.key = constSMT(t)
		t.size = 1
		return t.key
	case OpVar:
		t.key = t.Name + ":" + strconv.Itoa(int(t.W))
		t.size = 1
		return t.key
	}
	var sb strings.Builder
	sb.WriteByte('(')
	sb.WriteString(t.head())
	total := int32(1)
	for _, a := range t.Args {
		k := a.Key()
		if k == "" {
			t.size = -1
			return ""
		}
		total += a.size
		sb.WriteByte(' ')
		sb.WriteString(k)
	}
	if total > 300 {
		t.size = -1
		return ""
	}
	sb.WriteByte(')')
	t.size = total
	t.key = sb.String()
	return t.key
}

func mask(w uint8) uint64 {
	if w >= 64 {
		return ^uint64(0)
	}
	return (uint64(1) << w) - 1
}

var (
	TrueT  = &Term{Op: OpConst, W: 0, Val: 1}
	FalseT = &Term{Op: OpConst, W: 0, Val: 0}
)

var smallConsts [65][]*Term

func init() {
	for _, w := range []uint8{8, 16, 32, 64} {
		smallConsts[w] = make([]*Term, 260)
		for i := range smallConsts[w] {
			smallConsts[w][i] = &Term{Op: OpConst, W: w, Val: uint64(i)}
		}
	}
}

// BV returns the bit-vector constant v of width w.
func BV(w uint8, v uint64) *Term {
	v &= mask(w)
	if v < 260 && smallConsts[w] != nil {
		return smallConsts[w][v]
	}
	return &Term{Op: OpConst, W: w, Val: v}
}

func Bool(b bool) *Term {
	if b {
		return TrueT
	}
	return FalseT
}

func (t *Term) IsConst() bool { return t.Op == OpConst }
func (t *Term) IsTrue() bool  { return t.Op == OpConst && t.W == 0 && t.Val == 1 }
func (t *Term) IsFalse() bool { return t.Op == OpConst && t.W == 0 && t.Val == 0 }

// SInt returns the constant's value sign-extended to int64.
func (t *Term) SInt() int64 {
	if t.W >= 64 {
		return int64(t.Val)
	}
	sh := 64 - uint(t.W)
	return int64(t.Val<<sh) >> sh
}

func sext(v uint64, w uint8) int64 {
	if w >= 64 {
		return int64(v)
	}
	sh := 64 - uint(w)
	return int64(v<<sh) >> sh
}

func NewVar(name string, w uint8) *Term { return &Term{Op: OpVar, W: w, Name: name} }

func same(a, b *Term) bool {
	if a == b {
		return true
	}
	if a.Op == OpConst && b.Op == OpConst {
		return a.W == b.W && a.Val == b.Val
	}
	return false
}

func Not(a *Term) *Term {
	if a.Op == OpConst {
		return Bool(a.Val == 0)
	}
	if a.Op == OpNot {
		return a.Args[0]
	}
	return &Term{Op: OpNot, Args: []*Term{a}}
}

func And(a, b *Term) *Term {
	if a.IsFalse() || b.IsFalse() {
		return FalseT
	}
	if a.IsTrue() {
		return b
	}
	if b.IsTrue() {
		return a
	}
	if a == b {
		return a
	}
	return &Term{Op: OpAnd, Args: []*Term{a, b}}
}

func Or(a, b *Term) *Term {
	if a.IsTrue() || b.IsTrue() {
		return TrueT
	}
	if a.IsFalse() {
		return b
	}
	if b.IsFalse() {
		return a
	}
	if a == b {
		return a
	}
	return &Term{Op: OpOr, Args: []*Term{a, b}}
}

func Ite(c, a, b *Term) *Term {
	a, b = coerce(a, b)
	if c.IsTrue() {
		return a
	}
	if c.IsFalse() {
		return b
	}
	if same(a, b) {
		return a
	}
	if a.W == 0 {
		if a.IsTrue() && b.IsFalse() {
			return c
		}
		if a.IsFalse() && b.IsTrue() {
			return Not(c)
		}
	}
	return &Term{Op: OpIte, W: a.W, Args: []*Term{c, a, b}}
}

func Eq(a, b *Term) *Term {
	a, b = coerce(a, b)
	if a.W != b.W {
		panic(fmt.Sprintf("sym.Eq: width mismatch %d vs %d", a.W, b.W))
	}
	if a == b {
		return TrueT
	}
	if a.Op == OpConst && b.Op == OpConst {
		return Bool(a.Val == b.Val)
	}
	if a.W == 0 {
		if a.IsTrue() {
			return b
		}
		if b.IsTrue() {
			return a
		}
		if a.IsFalse() {
			return Not(b)
		}
		if b.IsFalse() {
			return Not(a)
		}
	}
	// ite(c, k1, k2) == k  with constants folds
	if b.Op == OpConst && a.Op == OpIte && a.Args[1].Op == OpConst && a.Args[2].Op == OpConst {
		return Ite(a.Args[0], Eq(a.Args[1], b), Eq(a.Args[2], b))
	}
	if a.Op == OpConst && b.Op == OpIte && b.Args[1].Op == OpConst && b.Args[2].Op == OpConst {
		return Ite(b.Args[0], Eq(b.Args[1], a), Eq(b.Args[2], a))
	}
	// zext(x) == const
	if b.Op == OpConst && a.Op == OpZExt {
		x := a.Args[0]
		if b.Val > mask(x.W) {
			return FalseT
		}
		return Eq(x, BV(x.W, b.Val))
	}
	if a.Op == OpConst && b.Op == OpZExt {
		return Eq(b, a)
	}
	return &Term{Op: OpEq, Args: []*Term{a, b}}
}

// Bin builds a binary bit-vector operation (result has the operand width).
func Bin(op Op, a, b *Term) *Term {
	a, b = coerce(a, b)
	if a.W == IntW {
		return binInt(op, a, b)
	}
	if a.W != b.W {
		panic(fmt.Sprintf("sym.Bin %v: width mismatch %d vs %d", opSMT[op], a.W, b.W))
	}
	w := a.W
	if a.Op == OpConst && b.Op == OpConst {
		x, y := a.Val, b.Val
		switch op {
		case OpAdd:
			return BV(w, x+y)
		case OpSub:
			return BV(w, x-y)
		case OpMul:
			return BV(w, x*y)
		case OpUDiv:
			if y == 0 {
				return BV(w, mask(w))
			}
			return BV(w, x/y)
		case OpURem:
			if y == 0 {
				return a
			}
			return BV(w, x%y)
		case OpSDiv:
			if y == 0 {
				break
			}
			sx, sy := sext(x, w), sext(y, w)
			if sy == -1 {
				return BV(w, uint64(-sx))
			}
			return BV(w, uint64(sx/sy))
		case OpSRem:
			if y == 0 {
				break
			}
			sx, sy := sext(x, w), sext(y, w)
			if sy == -1 {
				return BV(w, 0)
			}
			return BV(w, uint64(sx%sy))
		case OpBAnd:
			return BV(w, x&y)
		case OpBOr:
			return BV(w, x|y)
		case OpBXor:
			return BV(w, x^y)
		case OpShl:
			if y >= uint64(w) {
				return BV(w, 0)
			}
			return BV(w, x<<y)
		case OpLShr:
			if y >= uint64(w) {
				return BV(w, 0)
			}
			return BV(w, x>>y)
		case OpAShr:
			sx := sext(x, w)
			if y >= uint64(w) {
				y = uint64(w) - 1
			}
			return BV(w, uint64(sx>>y))
		}
	}
	if (op == OpUDiv || op == OpSDiv || op == OpURem || op == OpSRem) && a.Op == OpZExt && b.Op == OpConst {
		// a is non-negative and small: divide at the narrow width (bit-blasting
		// a 64-bit divider costs ~10 ms per query, a 16-bit one < 1 ms)
		x := a.Args[0]
		if b.Val != 0 && b.Val <= mask(x.W) && b.SInt() > 0 {
			nop := OpUDiv
			if op == OpURem || op == OpSRem {
				nop = OpURem
			}
			return Resize(Bin(nop, x, BV(x.W, b.Val)), w, false)
		}
		if b.Val != 0 && b.SInt() > 0 && b.Val > mask(x.W) {
			if op == OpUDiv || op == OpSDiv {
				return BV(w, 0)
			}
			return a
		}
	}
	// x + (y - x) = y ; (x + y) - x = y ; x - x = 0 (clock arithmetic)
	if op == OpAdd {
		if b.Op == OpSub && b.Args[1] == a {
			return b.Args[0]
		}
		if a.Op == OpSub && a.Args[1] == b {
			return a.Args[0]
		}
	}
	if op == OpSub {
		if a == b {
			return BV(w, 0)
		}
		if a.Op == OpAdd && a.Args[0] == b {
			return a.Args[1]
		}
		if a.Op == OpAdd && a.Args[1] == b {
			return a.Args[0]
		}
	}
	switch op {
	case OpAdd, OpBOr, OpBXor:
		if a.Op == OpConst && a.Val == 0 {
			return b
		}
		if b.Op == OpConst && b.Val == 0 {
			return a
		}
	case OpSub, OpShl, OpLShr, OpAShr:
		if b.Op == OpConst && b.Val == 0 {
			return a
		}
	case OpMul:
		if a.Op == OpConst && a.Val == 1 {
			return b
		}
		if b.Op == OpConst && b.Val == 1 {
			return a
		}
		if (a.Op == OpConst && a.Val == 0) || (b.Op == OpConst && b.Val == 0) {
			return BV(w, 0)
		}
	case OpBAnd:
		if (a.Op == OpConst && a.Val == 0) || (b.Op == OpConst && b.Val == 0) {
			return BV(w, 0)
		}
		if a.Op == OpConst && a.Val == mask(w) {
			return b
		}
		if b.Op == OpConst && b.Val == mask(w) {
			return a
		}
	case OpUDiv, OpSDiv:
		if b.Op == OpConst && b.Val == 1 {
			return a
		}
	}
	return &Term{Op: op, W: w, Args: []*Term{a, b}}
}

func binInt(op Op, a, b *Term) *Term {
	if a.Op == OpConst && b.Op == OpConst {
		x, y := a.SInt(), b.SInt()
		switch op {
		case OpAdd:
			return IntC(x + y)
		case OpSub:
			return IntC(x - y)
		case OpMul:
			return IntC(x * y)
		case OpSDiv, OpUDiv:
			if y != 0 {
				return IntC(x / y)
			}
		case OpSRem, OpURem:
			if y != 0 {
				return IntC(x % y)
			}
		}
	}
	switch op {
	case OpAdd:
		if a.Op == OpConst && a.Val == 0 {
			return b
		}
		if b.Op == OpConst && b.Val == 0 {
			return a
		}
		if b.Op == OpSub && b.Args[1] == a {
			return b.Args[0]
		}
		if a.Op == OpSub && a.Args[1] == b {
			return a.Args[0]
		}
	case OpSub:
		if b.Op == OpConst && b.Val == 0 {
			return a
		}
		if a == b {
			return IntC(0)
		}
		if a.Op == OpAdd && a.Args[0] == b {
			return a.Args[1]
		}
		if a.Op == OpAdd && a.Args[1] == b {
			return a.Args[0]
		}
	case OpMul:
		if a.Op == OpConst && a.Val == 1 {
			return b
		}
		if b.Op == OpConst && b.Val == 1 {
			return a
		}
	case OpSDiv, OpUDiv, OpSRem, OpURem:
		// truncated division of Go differs from SMT div/mod for negative operands;
		// time values are non-negative in the kernels (recorded assumption)
	default:
		// bitwise / shifts: go through 64-bit bit-vectors
		return Bin(op, ToBV(a, 64), ToBV(b, 64))
	}
	return &Term{Op: op, W: IntW, Args: []*Term{a, b}}
}

// Cmp builds a comparison (Ult, Ule, Slt, Sle).
func Cmp(op Op, a, b *Term) *Term {
	a, b = coerce(a, b)
	if a.W == IntW {
		if a.Op == OpConst && b.Op == OpConst {
			if op == OpUlt || op == OpSlt {
				return Bool(a.SInt() < b.SInt())
			}
			return Bool(a.SInt() <= b.SInt())
		}
		if a == b {
			return Bool(op == OpUle || op == OpSle)
		}
		return &Term{Op: op, Args: []*Term{a, b}}
	}
	if a.W != b.W {
		panic(fmt.Sprintf("sym.Cmp: width mismatch %d vs %d", a.W, b.W))
	}
	if a.Op == OpConst && b.Op == OpConst {
		switch op {
		case OpUlt:
			return Bool(a.Val < b.Val)
		case OpUle:
			return Bool(a.Val <= b.Val)
		case OpSlt:
			return Bool(a.SInt() < b.SInt())
		case OpSle:
			return Bool(a.SInt() <= b.SInt())
		}
	}
	if a == b {
		return Bool(op == OpUle || op == OpSle)
	}
	// comparisons of a zero-extended narrow value against a constant that fits
	if a.Op == OpZExt && b.Op == OpConst {
		x := a.Args[0]
		if b.SInt() >= 0 && b.Val <= mask(x.W) {
			uop := op
			if op == OpSlt {
				uop = OpUlt
			} else if op == OpSle {
				uop = OpUle
			}
			return Cmp(uop, x, BV(x.W, b.Val))
		}
	}
	if b.Op == OpZExt && a.Op == OpConst {
		x := b.Args[0]
		if a.SInt() >= 0 && a.Val <= mask(x.W) {
			uop := op
			if op == OpSlt {
				uop = OpUlt
			} else if op == OpSle {
				uop = OpUle
			}
			return Cmp(uop, BV(x.W, a.Val), x)
		}
	}
	return &Term{Op: op, Args: []*Term{a, b}}
}

func BNot(a *Term) *Term {
	if a.Op == OpConst {
		return BV(a.W, ^a.Val)
	}
	return &Term{Op: OpBNot, W: a.W, Args: []*Term{a}}
}

func Neg(a *Term) *Term {
	if a.W == IntW {
		if a.Op == OpConst {
			return IntC(-a.SInt())
		}
		return &Term{Op: OpNeg, W: IntW, Args: []*Term{a}}
	}
	if a.Op == OpConst {
		return BV(a.W, -a.Val)
	}
	return &Term{Op: OpNeg, W: a.W, Args: []*Term{a}}
}

// Resize converts a to width w; signed selects sign extension when widening.
func Resize(a *Term, w uint8, signed bool) *Term {
	if a.W == w {
		return a
	}
	if a.W == IntW {
		if w == 64 {
			return a // 64-bit integers may stay in the Int sort (time values)
		}
		return ToBV(a, w)
	}
	if w == IntW {
		return ToInt(a)
	}
	if a.Op == OpConst {
		if w > a.W && signed {
			return BV(w, uint64(a.SInt()))
		}
		return BV(w, a.Val)
	}
	if w < a.W {
		// extract of an extension of something narrow enough
		if (a.Op == OpZExt || a.Op == OpSExt) && a.Args[0].W <= w {
			return Resize(a.Args[0], w, a.Op == OpSExt)
		}
		return &Term{Op: OpExtract, W: w, Args: []*Term{a}, Aux: int(w-1)<<8 | 0}
	}
	if signed {
		return &Term{Op: OpSExt, W: w, Args: []*Term{a}, Aux: int(w - a.W)}
	}
	if a.Op == OpZExt {
		return Resize(a.Args[0], w, false)
	}
	return &Term{Op: OpZExt, W: w, Args: []*Term{a}, Aux: int(w - a.W)}
}

// App builds an application of an uninterpreted function.
func App(name string, w uint8, args ...*Term) *Term {
	return &Term{Op: OpApp, W: w, Name: name, Args: args}
}

func sortSMT(w uint8) string {
	if w == 0 {
		return "Bool"
	}
	if w == IntW {
		return "Int"
	}
	return fmt.Sprintf("(_ BitVec %d)", w)
}

func constSMT(t *Term) string {
	if t.W == IntW {
		v := t.SInt()
		if v < 0 {
			return fmt.Sprintf("(- %d)", uint64(-v))
		}
		return fmt.Sprintf("%d", v)
	}
	if t.W == 0 {
		if t.Val != 0 {
			return "true"
		}
		return "false"
	}
	if t.W%4 == 0 {
		return fmt.Sprintf("#x%0*x", int(t.W/4), t.Val)
	}
	return fmt.Sprintf("#b%0*b", int(t.W), t.Val)
}

// quoteSym quotes an SMT-LIB symbol.
func quoteSym(s string) string {
	return "|" + strings.NewReplacer("|", "_", "\\", "_").Replace(s) + "|"
}

// String renders a term as a (tree-shaped) SMT-LIB expression; used for
// diagnostics and samples only.
func (t *Term) String() string {
	var sb strings.Builder
	t.write(&sb, 0)
	return sb.String()
}

func (t *Term) write(sb *strings.Builder, depth int) {
	if depth > 40 {
		sb.WriteString("…")
		return
	}
	switch t.Op {
	case OpConst:
		sb.WriteString(constSMT(t))
	case OpVar:
		sb.WriteString(t.Name)
	default:
		sb.WriteByte('(')
		sb.WriteString(t.head())
		for _, a := range t.Args {
			sb.WriteByte(' ')
			a.write(sb, depth+1)
		}
		sb.WriteByte(')')
	}
}

func (t *Term) head() string {
	switch t.Op {
	case OpZExt:
		return fmt.Sprintf("(_ zero_extend %d)", t.Aux)
	case OpSExt:
		return fmt.Sprintf("(_ sign_extend %d)", t.Aux)
	case OpExtract:
		return fmt.Sprintf("(_ extract %d %d)", t.Aux>>8, t.Aux&0xff)
	case OpApp:
		return quoteSym(t.Name)
	case OpInt2BV:
		return fmt.Sprintf("(_ int2bv %d)", t.Aux)
	case OpBV2Int:
		return "bv2nat"
	}
	if t.W == IntW {
		switch t.Op {
		case OpAdd:
			return "+"
		case OpSub, OpNeg:
			return "-"
		case OpMul:
			return "*"
		case OpSDiv, OpUDiv:
			return "div"
		case OpSRem, OpURem:
			return "mod"
		}
	}
	if len(t.Args) == 2 && t.Args[0].W == IntW {
		switch t.Op {
		case OpUlt, OpSlt:
			return "<"
		case OpUle, OpSle:
			return "<="
		}
	}
	return opSMT[t.Op]
}

// Eval evaluates t under an assignment of variables (by name). Unknown
// variables evaluate to 0. Used for replay bookkeeping and self-tests.
func (t *Term) Eval(env map[string]uint64) uint64 {
	switch t.Op {
	case OpConst:
		return t.Val
	case OpVar:
		return env[t.Name] & maskB(t.W)
	case OpNot:
		return 1 - t.Args[0].Eval(env)
	case OpAnd:
		if t.Args[0].Eval(env) == 0 {
			return 0
		}
		return t.Args[1].Eval(env)
	case OpOr:
		if t.Args[0].Eval(env) == 1 {
			return 1
		}
		return t.Args[1].Eval(env)
	case OpIte:
		if t.Args[0].Eval(env) == 1 {
			return t.Args[1].Eval(env)
		}
		return t.Args[2].Eval(env)
	case OpEq:
		if t.Args[0].Eval(env) == t.Args[1].Eval(env) {
			return 1
		}
		return 0
	case OpUlt, OpUle, OpSlt, OpSle:
		a := BV(t.Args[0].W, t.Args[0].Eval(env))
		b := BV(t.Args[1].W, t.Args[1].Eval(env))
		return Cmp(t.Op, a, b).Val
	case OpBNot:
		return ^t.Args[0].Eval(env) & mask(t.W)
	case OpNeg:
		return -t.Args[0].Eval(env) & mask(t.W)
	case OpZExt:
		return t.Args[0].Eval(env)
	case OpSExt:
		return uint64(sext(t.Args[0].Eval(env), t.Args[0].W)) & mask(t.W)
	case OpExtract:
		return (t.Args[0].Eval(env) >> uint(t.Aux&0xff)) & mask(t.W)
	case OpConcat:
		return (t.Args[0].Eval(env)<<t.Args[1].W | t.Args[1].Eval(env)) & mask(t.W)
	case OpApp:
		return 0
	}
	a := BV(t.W, t.Args[0].Eval(env))
	b := BV(t.W, t.Args[1].Eval(env))
	return Bin(t.Op, a, b).Val
}

func maskB(w uint8) uint64 {
	if w == 0 {
		return 1
	}
	return mask(w)
}
