package sym

import (
	"fmt"
	"go/token"
	"go/types"
	"math"
	"strings"
	"unicode/utf8"

	"golang.org/x/tools/go/ssa"
)

func (th *Thread) unop(fr *frame, ins *ssa.UnOp, x Value) Value {
	switch ins.Op {
	case token.MUL:
		return th.load(fr, x)
	case token.ARROW:
		ch, _ := x.(*Chan)
		v, ok := th.chanRecv(ch)
		et := ins.X.Type().Underlying().(*types.Chan).Elem()
		if !ok || v == nil {
			if !ok {
				v = zero(et)
			} else if v == nil {
				v = zero(et)
			}
		}
		if ins.CommaOk {
			return Tuple{v, Bool(ok)}
		}
		return v
	case token.NOT:
		return Not(x.(*Term))
	case token.SUB:
		switch x := x.(type) {
		case *Term:
			return Neg(x)
		case float64:
			return -x
		case complex128:
			return -x
		}
	case token.XOR:
		return BNot(x.(*Term))
	}
	panic(unsupported{fmt.Sprintf("unop %v on %T", ins.Op, x)})
}

// force turns a finite-alphabet string into a concrete one (forking).
func (th *Thread) force(v Value) Value {
	switch u := v.(type) {
	case UStr:
		k := th.p.concretizeN(u.Sel, len(u.Alt))
		th.p.w.res.Intrinsics["union string concretised"]++
		return Str{S: u.Alt[k]}
	case Iface:
		if _, ok := u.V.(UStr); ok {
			return Iface{T: u.T, V: th.force(u.V)}
		}
	}
	return v
}

func (th *Thread) forceAll(vs []Value) {
	for i, v := range vs {
		switch v.(type) {
		case UStr, Iface:
			vs[i] = th.force(v)
		}
	}
}

func (th *Thread) binop(op token.Token, t types.Type, x, y Value) Value {
	switch op {
	case token.EQL:
		return eqTerm(x, y)
	case token.NEQ:
		return Not(eqTerm(x, y))
	}
	x, y = th.force(x), th.force(y)
	_, xo := x.(OpaqueFloat)
	_, yo := y.(OpaqueFloat)
	if xo || yo {
		th.p.w.res.Intrinsics["opaque float arithmetic"]++
		switch op {
		case token.ADD, token.SUB, token.MUL, token.QUO:
			return OpaqueFloat{}
		case token.LSS, token.LEQ, token.GTR, token.GEQ:
			return th.p.freshVar("fcmp", 0)
		}
	}
	switch xv := x.(type) {
	case *Term:
		yv := y.(*Term)
		_, signed, _ := widthOf(t)
		if xv.W == IntW || yv.W == IntW {
			switch op {
			case token.ADD, token.SUB, token.MUL, token.QUO, token.REM, token.LSS, token.LEQ, token.GTR, token.GEQ:
				signed = true
			default:
				xv, yv = ToBV(xv, 64), ToBV(yv, 64)
			}
		}
		switch op {
		case token.ADD:
			return Bin(OpAdd, xv, yv)
		case token.SUB:
			return Bin(OpSub, xv, yv)
		case token.MUL:
			return Bin(OpMul, xv, yv)
		case token.QUO, token.REM:
			if yv.Op == OpConst {
				if yv.Val == 0 {
					th.goPanicRT("integer divide by zero")
				}
			} else if th.p.branch(Eq(yv, BV(yv.W, 0))) {
				th.goPanicRT("integer divide by zero")
			}
			if op == token.QUO {
				if signed {
					return Bin(OpSDiv, xv, yv)
				}
				return Bin(OpUDiv, xv, yv)
			}
			if signed {
				return Bin(OpSRem, xv, yv)
			}
			return Bin(OpURem, xv, yv)
		case token.AND:
			if xv.W == 0 {
				return And(xv, yv)
			}
			return Bin(OpBAnd, xv, yv)
		case token.OR:
			if xv.W == 0 {
				return Or(xv, yv)
			}
			return Bin(OpBOr, xv, yv)
		case token.XOR:
			return Bin(OpBXor, xv, yv)
		case token.AND_NOT:
			return Bin(OpBAnd, xv, BNot(yv))
		case token.SHL, token.SHR:
			// y has its own type (any integer); counts >= width give 0 / sign fill
			var cnt *Term
			if yv.Op == OpConst {
				c := yv.Val
				if c > uint64(xv.W) {
					c = uint64(xv.W)
				}
				cnt = BV(xv.W, c)
			} else if yv.W > xv.W {
				big := Cmp(OpUle, BV(yv.W, uint64(xv.W)), yv)
				cnt = Ite(big, BV(xv.W, uint64(xv.W)), Resize(yv, xv.W, false))
			} else {
				cnt = Resize(yv, xv.W, false)
			}
			if op == token.SHL {
				return Bin(OpShl, xv, cnt)
			}
			if signed {
				return Bin(OpAShr, xv, cnt)
			}
			return Bin(OpLShr, xv, cnt)
		case token.LSS:
			if signed {
				return Cmp(OpSlt, xv, yv)
			}
			return Cmp(OpUlt, xv, yv)
		case token.LEQ:
			if signed {
				return Cmp(OpSle, xv, yv)
			}
			return Cmp(OpUle, xv, yv)
		case token.GTR:
			if signed {
				return Cmp(OpSlt, yv, xv)
			}
			return Cmp(OpUlt, yv, xv)
		case token.GEQ:
			if signed {
				return Cmp(OpSle, yv, xv)
			}
			return Cmp(OpUle, yv, xv)
		}
	case float64:
		yv := y.(float64)
		f32 := false
		if b, ok := t.Underlying().(*types.Basic); ok && b.Kind() == types.Float32 {
			f32 = true
		}
		r := func(f float64) Value {
			if f32 {
				return float64(float32(f))
			}
			return f
		}
		switch op {
		case token.ADD:
			return r(xv + yv)
		case token.SUB:
			return r(xv - yv)
		case token.MUL:
			return r(xv * yv)
		case token.QUO:
			return r(xv / yv)
		case token.LSS:
			return Bool(xv < yv)
		case token.LEQ:
			return Bool(xv <= yv)
		case token.GTR:
			return Bool(xv > yv)
		case token.GEQ:
			return Bool(xv >= yv)
		}
	case complex128:
		yv := y.(complex128)
		switch op {
		case token.ADD:
			return xv + yv
		case token.SUB:
			return xv - yv
		case token.MUL:
			return xv * yv
		case token.QUO:
			return xv / yv
		}
	case Str:
		yv := y.(Str)
		switch op {
		case token.ADD:
			return concatStr(xv, yv)
		case token.LSS:
			return strLess(xv, yv, false)
		case token.LEQ:
			return strLess(xv, yv, true)
		case token.GTR:
			return strLess(yv, xv, false)
		case token.GEQ:
			return strLess(yv, xv, true)
		}
	}
	panic(unsupported{fmt.Sprintf("binop %v on %T", op, x)})
}

// strLess builds a < b (or a <= b) lexicographically.
func strLess(a, b Str, orEq bool) *Term {
	if a.B == nil && b.B == nil {
		if orEq {
			return Bool(a.S <= b.S)
		}
		return Bool(a.S < b.S)
	}
	n := a.Len()
	if b.Len() < n {
		n = b.Len()
	}
	// result when common prefix equal
	var res *Term
	if orEq {
		res = Bool(a.Len() <= b.Len())
	} else {
		res = Bool(a.Len() < b.Len())
	}
	for i := n - 1; i >= 0; i-- {
		x, y := a.At(i), b.At(i)
		res = Ite(Cmp(OpUlt, x, y), TrueT, Ite(Cmp(OpUlt, y, x), FalseT, res))
	}
	return res
}

func (th *Thread) conv(dst, src types.Type, x Value) Value {
	ud, us := dst.Underlying(), src.Underlying()
	if _, ok := x.(UStr); ok {
		if isString(ud) {
			return x // string -> named string type: stays symbolic
		}
		x = th.force(x)
	}
	switch ud := ud.(type) {
	case *types.Basic:
		if ud.Kind() == types.UnsafePointer {
			return x // pointer or uintptr-as-pointer: representation unchanged
		}
		if dw, _, ok := widthOf(ud); ok {
			switch xv := x.(type) {
			case *Term:
				_, ssigned, _ := widthOf(us)
				if dw == 0 {
					return xv
				}
				return Resize(xv, dw, ssigned)
			case OpaqueFloat:
				th.p.w.res.Intrinsics["opaque float -> integer (unconstrained)"]++
				return th.p.freshVar("fint", dw)
			case float64:
				if math.IsNaN(xv) || math.IsInf(xv, 0) {
					return BV(dw, 0)
				}
				_, dsigned, _ := widthOf(ud)
				if dsigned {
					return BV(dw, uint64(int64(xv)))
				}
				return BV(dw, uint64(xv))
			case *Value:
				// unsafe.Pointer -> uintptr
				panic(unsupported{"conversion of pointer to uintptr"})
			}
		}
		if ud.Info()&types.IsFloat != 0 {
			f32 := ud.Kind() == types.Float32
			switch xv := x.(type) {
			case float64:
				if f32 {
					return float64(float32(xv))
				}
				return xv
			case OpaqueFloat:
				return xv
			case *Term:
				if xv.Op != OpConst {
					return OpaqueFloat{}
				}
				_, ssigned, _ := widthOf(us)
				var f float64
				if ssigned {
					f = float64(xv.SInt())
				} else {
					f = float64(xv.Val)
				}
				if f32 {
					return float64(float32(f))
				}
				return f
			}
		}
		if ud.Info()&types.IsComplex != 0 {
			return x
		}
		if ud.Info()&types.IsString != 0 {
			switch xv := x.(type) {
			case Str:
				return xv
			case *Term: // integer -> string (a rune)
				_, ssigned, _ := widthOf(us)
				r := Resize(xv, 32, ssigned)
				if r.Op == OpConst && xv.Op == OpConst {
					v := xv.SInt()
					if !ssigned {
						v = int64(xv.Val)
					}
					if v < 0 || v > 0x10FFFF {
						return Str{S: "�"}
					}
					return Str{S: string(rune(v))}
				}
				return mkStr(th.encodeRune(r))
			case []Value:
				if es, ok := us.(*types.Slice); ok {
					if b, ok := es.Elem().Underlying().(*types.Basic); ok && b.Kind() == types.Int32 {
						var out []*Term
						for _, rv := range xv {
							out = append(out, th.encodeRune(rv.(*Term))...)
						}
						return mkStr(out)
					}
				}
				out := make([]*Term, len(xv))
				for i, b := range xv {
					out[i] = b.(*Term)
				}
				return mkStr(out)
			}
		}
	case *types.Slice:
		if s, ok := x.(Str); ok {
			b, _ := ud.Elem().Underlying().(*types.Basic)
			if b != nil && b.Kind() == types.Int32 {
				out := []Value{}
				for i := 0; i < s.Len(); {
					r, n := th.decodeRune(s, i)
					out = append(out, r)
					i += n
				}
				return out
			}
			out := make([]Value, s.Len())
			for i := range out {
				out[i] = s.At(i)
			}
			return out
		}
		return x
	case *types.Pointer:
		return x
	}
	if types.Identical(ud, us) {
		return x
	}
	// conversions that only change the name of the type
	switch x.(type) {
	case *Value, []Value, *Map, *Chan, Struct, Array, Iface, *ssa.Function, *Closure:
		return x
	}
	panic(unsupported{fmt.Sprintf("conversion %v -> %v (%T)", src, dst, x)})
}

// decodeRune decodes the rune at s[i:] (Go semantics, invalid -> U+FFFD, 1),
// forking on the class of symbolic bytes. Returns a 32-bit term and the size.
func (th *Thread) decodeRune(s Str, i int) (*Term, int) {
	n := s.Len() - i
	if n <= 0 {
		return BV(32, utf8.RuneError), 0
	}
	if s.B == nil {
		r, sz := utf8.DecodeRuneInString(s.S[i:])
		return BV(32, uint64(r)), sz
	}
	p := th.p
	b0 := s.At(i)
	lt := func(b *Term, c uint64) bool { return p.branch(Cmp(OpUlt, b, BV(8, c))) }
	ext := func(b *Term) *Term { return Resize(b, 32, false) }
	bad := BV(32, utf8.RuneError)
	if lt(b0, 0x80) {
		return ext(b0), 1
	}
	if lt(b0, 0xC2) {
		return bad, 1
	}
	cont := func(b *Term, lo, hi uint64) bool {
		// lo <= b <= hi
		return p.branch(And(Cmp(OpUle, BV(8, lo), b), Cmp(OpUle, b, BV(8, hi))))
	}
	and := func(b *Term, m uint64) *Term { return Bin(OpBAnd, ext(b), BV(32, m)) }
	shl := func(t *Term, k uint64) *Term { return Bin(OpShl, t, BV(32, k)) }
	or := func(a, b *Term) *Term { return Bin(OpBOr, a, b) }
	if lt(b0, 0xE0) {
		if n < 2 || !cont(s.At(i+1), 0x80, 0xBF) {
			return bad, 1
		}
		return or(shl(and(b0, 0x1F), 6), and(s.At(i+1), 0x3F)), 2
	}
	if lt(b0, 0xF0) {
		lo, hi := uint64(0x80), uint64(0xBF)
		if p.branch(Eq(b0, BV(8, 0xE0))) {
			lo = 0xA0
		} else if p.branch(Eq(b0, BV(8, 0xED))) {
			hi = 0x9F
		}
		if n < 2 || !cont(s.At(i+1), lo, hi) {
			return bad, 1
		}
		if n < 3 || !cont(s.At(i+2), 0x80, 0xBF) {
			return bad, 1
		}
		return or(or(shl(and(b0, 0x0F), 12), shl(and(s.At(i+1), 0x3F), 6)), and(s.At(i+2), 0x3F)), 3
	}
	if lt(b0, 0xF5) {
		lo, hi := uint64(0x80), uint64(0xBF)
		if p.branch(Eq(b0, BV(8, 0xF0))) {
			lo = 0x90
		} else if p.branch(Eq(b0, BV(8, 0xF4))) {
			hi = 0x8F
		}
		if n < 2 || !cont(s.At(i+1), lo, hi) {
			return bad, 1
		}
		if n < 3 || !cont(s.At(i+2), 0x80, 0xBF) {
			return bad, 1
		}
		if n < 4 || !cont(s.At(i+3), 0x80, 0xBF) {
			return bad, 1
		}
		return or(or(or(shl(and(b0, 0x07), 18), shl(and(s.At(i+1), 0x3F), 12)), shl(and(s.At(i+2), 0x3F), 6)), and(s.At(i+3), 0x3F)), 4
	}
	return bad, 1
}

// encodeRune returns the UTF-8 encoding of r (forking on its size class).
func (th *Thread) encodeRune(r *Term) []*Term {
	p := th.p
	if r.Op == OpConst {
		rv := rune(int32(r.Val))
		if int64(int32(r.Val)) < 0 || rv > 0x10FFFF || (rv >= 0xD800 && rv <= 0xDFFF) {
			rv = utf8.RuneError
		}
		var buf [4]byte
		n := utf8.EncodeRune(buf[:], rv)
		out := make([]*Term, n)
		for i := 0; i < n; i++ {
			out[i] = BV(8, uint64(buf[i]))
		}
		return out
	}
	b := func(t *Term) *Term { return Resize(t, 8, false) }
	shr := func(k uint64) *Term { return Bin(OpLShr, r, BV(32, k)) }
	low6 := func(t *Term) *Term { return Bin(OpBOr, BV(8, 0x80), Bin(OpBAnd, b(t), BV(8, 0x3F))) }
	if p.branch(Cmp(OpUlt, r, BV(32, 0x80))) {
		return []*Term{b(r)}
	}
	if p.branch(Cmp(OpUlt, r, BV(32, 0x800))) {
		return []*Term{Bin(OpBOr, BV(8, 0xC0), b(shr(6))), low6(r)}
	}
	invalid := Or(Cmp(OpUlt, BV(32, 0x10FFFF), r), And(Cmp(OpUle, BV(32, 0xD800), r), Cmp(OpUle, r, BV(32, 0xDFFF))))
	if p.branch(invalid) {
		return []*Term{BV(8, 0xEF), BV(8, 0xBF), BV(8, 0xBD)}
	}
	if p.branch(Cmp(OpUlt, r, BV(32, 0x10000))) {
		return []*Term{Bin(OpBOr, BV(8, 0xE0), b(shr(12))), low6(shr(6)), low6(r)}
	}
	return []*Term{Bin(OpBOr, BV(8, 0xF0), b(shr(18))), low6(shr(12)), low6(shr(6)), low6(r)}
}

// ---- range iteration ----

type mapIter struct {
	m    *Map
	i    int
	perm []int
}

type strIter struct {
	s Str
	i int
}

func (th *Thread) rangeIter(x Value, t types.Type, fr *frame) Value {
	x = th.force(x)
	switch x := x.(type) {
	case *Map:
		it := &mapIter{m: x}
		if x != nil {
			it.perm = th.mapOrder(x, fr)
		}
		return it
	case Str:
		return &strIter{s: x}
	}
	panic(unsupported{fmt.Sprintf("range over %T", x)})
}

func (th *Thread) iterNext(it Value, ins *ssa.Next) Value {
	switch it := it.(type) {
	case *mapIter:
		if it.m != nil && it.perm != nil {
			// explored iteration order (Config.MapOrder); entries added during the
			// iteration are not visited, as Go permits
			for it.i < len(it.perm) {
				i := it.perm[it.i]
				it.i++
				if i < len(it.m.live) && it.m.live[i] {
					return Tuple{TrueT, it.m.keys[i], copyVal(it.m.vals[i])}
				}
			}
		} else if it.m != nil {
			for it.i < len(it.m.keys) {
				i := it.i
				it.i++
				if it.m.live[i] {
					return Tuple{TrueT, it.m.keys[i], copyVal(it.m.vals[i])}
				}
			}
		}
		tt := ins.Type().(*types.Tuple)
		var k, v Value
		if tt.At(1).Type() != nil && !isInvalid(tt.At(1).Type()) {
			k = zero(tt.At(1).Type())
		}
		if tt.At(2).Type() != nil && !isInvalid(tt.At(2).Type()) {
			v = zero(tt.At(2).Type())
		}
		return Tuple{FalseT, k, v}
	case *strIter:
		if it.i >= it.s.Len() {
			return Tuple{FalseT, BV(64, 0), BV(32, 0)}
		}
		r, n := th.decodeRune(it.s, it.i)
		idx := it.i
		it.i += n
		return Tuple{TrueT, BV(64, uint64(idx)), r}
	}
	panic(unsupported{fmt.Sprintf("next on %T", it)})
}

// mapOrder forks over the iteration orders of a small map when the range
// statement is in one of the functions selected by Config.MapOrderIn: all
// permutations up to 3 live entries, forward and reverse above that.
func (th *Thread) mapOrder(m *Map, fr *frame) []int {
	cfg := &th.p.eng.Cfg
	if cfg.MapOrder < 2 || th.p.w.inInit > 0 || fr == nil {
		return nil
	}
	name := fr.fn.String()
	sel := false
	for _, sub := range cfg.MapOrderIn {
		if strings.Contains(name, sub) {
			sel = true
		}
	}
	if !sel {
		return nil
	}
	var live []int
	for i := range m.keys {
		if m.live[i] {
			live = append(live, i)
		}
	}
	if len(live) < 2 || len(live) > cfg.MapOrder {
		return nil
	}
	th.p.w.res.Intrinsics["map iteration order explored"]++
	if len(live) > 3 {
		if th.p.choose(2) == 1 {
			for a, b := 0, len(live)-1; a < b; a, b = a+1, b-1 {
				live[a], live[b] = live[b], live[a]
			}
		}
		return live
	}
	n := 2
	if len(live) == 3 {
		n = 6
	}
	k := th.p.choose(n)
	perm := append([]int(nil), live...)
	// k-th permutation (factorial number system)
	out := make([]int, 0, len(perm))
	f := n
	for len(perm) > 0 {
		f /= len(perm)
		idx := k / f
		k %= f
		out = append(out, perm[idx])
		perm = append(perm[:idx], perm[idx+1:]...)
	}
	return out
}

func isInvalid(t types.Type) bool {
	b, ok := t.(*types.Basic)
	return ok && b.Kind() == types.Invalid
}

// ---- maps ----

func (th *Thread) mapFind(m *Map, k Value) int {
	if ck, ok := concreteKey(k); ok {
		if i, ok := m.idx[ck]; ok && m.live[i] {
			return i
		}
		// may still equal an entry with a symbolic key
		for _, i := range m.symKeys {
			if m.live[i] && th.p.branch(eqTerm(m.keys[i], k)) {
				return i
			}
		}
		return -1
	}
	for i := range m.keys {
		if !m.live[i] {
			continue
		}
		if th.p.branch(eqTerm(m.keys[i], k)) {
			return i
		}
	}
	return -1
}

func (th *Thread) mapGet(m *Map, k Value) (Value, bool) {
	if m == nil {
		return nil, false
	}
	i := th.mapFind(m, k)
	if i < 0 {
		return nil, false
	}
	return m.vals[i], true
}

// mapGetSym answers a lookup with a symbolic key without forking when every
// live value is a scalar term (or a zero-size struct): the result is an
// if-then-else chain over key equalities.
func (th *Thread) mapGetSym(m *Map, k Value, vt types.Type, commaOk bool) (Value, bool) {
	if m == nil || m.n == 0 {
		return nil, false
	}
	if _, conc := concreteKey(k); conc {
		return nil, false
	}
	z := zero(vt)
	zt, scalar := z.(*Term)
	zs, isStruct := z.(Struct)
	if !scalar && !(isStruct && len(zs) == 0) {
		return nil, false
	}
	found := FalseT
	res := zt
	for i := len(m.keys) - 1; i >= 0; i-- {
		if !m.live[i] {
			continue
		}
		eq := eqTerm(m.keys[i], k)
		if eq.IsFalse() {
			continue
		}
		found = Or(eq, found)
		if scalar {
			res = Ite(eq, m.vals[i].(*Term), res)
		}
	}
	var v Value = z
	if scalar {
		v = res
	}
	if commaOk {
		return Tuple{v, found}, true
	}
	return v, true
}

func (th *Thread) mapUndo(m *Map) {
	w := th.p.w
	if w.inInit > 0 || m.epoch == w.epoch {
		return
	}
	// snapshot the whole map once per path
	keys := append([]Value(nil), m.keys...)
	vals := append([]Value(nil), m.vals...)
	live := append([]bool(nil), m.live...)
	sym := append([]int(nil), m.symKeys...)
	idx := make(map[string]int, len(m.idx))
	for k, v := range m.idx {
		idx[k] = v
	}
	n := m.n
	ep := m.epoch
	m.epoch = w.epoch
	w.undoFns = append(w.undoFns, func() {
		m.keys, m.vals, m.live, m.symKeys, m.idx, m.n, m.epoch = keys, vals, live, sym, idx, n, ep
	})
}

func (th *Thread) mapSet(m *Map, k, v Value) {
	th.mapUndo(m)
	i := th.mapFind(m, k)
	v = copyVal(v)
	if i >= 0 {
		m.vals[i] = v
		return
	}
	m.keys = append(m.keys, k)
	m.vals = append(m.vals, v)
	m.live = append(m.live, true)
	m.n++
	if ck, ok := concreteKey(k); ok {
		m.idx[ck] = len(m.keys) - 1
	} else {
		m.symKeys = append(m.symKeys, len(m.keys)-1)
	}
}

func (th *Thread) mapDelete(m *Map, k Value) {
	if m == nil {
		return
	}
	th.mapUndo(m)
	i := th.mapFind(m, k)
	if i < 0 {
		return
	}
	m.live[i] = false
	m.n--
	if ck, ok := concreteKey(m.keys[i]); ok {
		delete(m.idx, ck)
	}
}

// ---- builtins ----

func (th *Thread) callBuiltin(fr *frame, b *ssa.Builtin, c *ssa.CallCommon, args []Value) Value {
	if b.Name() == "len" {
		if u, ok := args[0].(UStr); ok {
			res := BV(64, uint64(len(u.Alt[len(u.Alt)-1])))
			for i := len(u.Alt) - 2; i >= 0; i-- {
				res = Ite(Eq(u.Sel, BV(8, uint64(i))), BV(64, uint64(len(u.Alt[i]))), res)
			}
			return res
		}
	}
	th.forceAll(args)
	switch b.Name() {
	case "append":
		if len(args) == 1 {
			return args[0]
		}
		var add []Value
		switch y := args[1].(type) {
		case Str:
			add = make([]Value, y.Len())
			for i := range add {
				add[i] = y.At(i)
			}
		case []Value:
			add = y
		}
		x := args[0].([]Value)
		if len(add) == 0 {
			return x
		}
		// copy elements (aggregates must not alias)
		n := len(x)
		if n+len(add) <= cap(x) {
			res := x[:n+len(add)]
			for i, v := range add {
				th.p.w.storeRaw(&res[n+i], copyVal(v))
			}
			return res
		}
		nc := 2*cap(x) + len(add)
		res := make([]Value, n+len(add), nc)
		copy(res, x)
		for i, v := range add {
			res[n+i] = copyVal(v)
		}
		// fill spare capacity with zero values
		et := c.Args[0].Type().Underlying().(*types.Slice).Elem()
		full := res[:nc]
		z := zero(et)
		for i := n + len(add); i < nc; i++ {
			full[i] = copyVal(z)
		}
		return res
	case "copy":
		dst := args[0].([]Value)
		var n int
		switch src := args[1].(type) {
		case Str:
			n = len(dst)
			if src.Len() < n {
				n = src.Len()
			}
			for i := 0; i < n; i++ {
				th.p.w.store(&dst[i], src.At(i))
			}
		case []Value:
			n = len(dst)
			if len(src) < n {
				n = len(src)
			}
			if n > 0 && &dst[0] == &src[0] {
				return BV(64, uint64(n))
			}
			tmp := make([]Value, n)
			for i := 0; i < n; i++ {
				tmp[i] = copyVal(src[i])
			}
			for i := 0; i < n; i++ {
				th.p.w.store(&dst[i], tmp[i])
			}
		}
		return BV(64, uint64(n))
	case "close":
		ch, _ := args[0].(*Chan)
		th.chanClose(ch)
		return nil
	case "delete":
		m, _ := args[0].(*Map)
		th.mapDelete(m, args[1])
		return nil
	case "print", "println":
		return nil
	case "len":
		switch x := args[0].(type) {
		case Str:
			return BV(64, uint64(x.Len()))
		case []Value:
			return BV(64, uint64(len(x)))
		case Array:
			return BV(64, uint64(len(x)))
		case *Value:
			if x == nil {
				// len of nil *array is the static length
				at := c.Args[0].Type().Underlying().(*types.Pointer).Elem().Underlying().(*types.Array)
				return BV(64, uint64(at.Len()))
			}
			return BV(64, uint64(len((*x).(Array))))
		case *Map:
			if x == nil {
				return BV(64, 0)
			}
			return BV(64, uint64(x.n))
		case *Chan:
			if x == nil {
				return BV(64, 0)
			}
			return BV(64, uint64(len(x.buf)))
		}
	case "cap":
		switch x := args[0].(type) {
		case []Value:
			return BV(64, uint64(cap(x)))
		case Array:
			return BV(64, uint64(len(x)))
		case *Value:
			at := c.Args[0].Type().Underlying().(*types.Pointer).Elem().Underlying().(*types.Array)
			return BV(64, uint64(at.Len()))
		case *Chan:
			if x == nil {
				return BV(64, 0)
			}
			return BV(64, uint64(x.cap))
		}
	case "min", "max":
		res := args[0]
		for _, a := range args[1:] {
			switch r := res.(type) {
			case *Term:
				_, signed, _ := widthOf(c.Args[0].Type())
				op := OpUlt
				if signed {
					op = OpSlt
				}
				lt := Cmp(op, a.(*Term), r)
				if b.Name() == "max" {
					lt = Cmp(op, r, a.(*Term))
				}
				res = Ite(lt, a.(*Term), r)
			case float64:
				if b.Name() == "min" {
					res = math.Min(r, a.(float64))
				} else {
					res = math.Max(r, a.(float64))
				}
			default:
				panic(unsupported{"min/max on " + fmt.Sprintf("%T", res)})
			}
		}
		return res
	case "clear":
		switch x := args[0].(type) {
		case *Map:
			if x != nil {
				th.mapUndo(x)
				for i := range x.live {
					x.live[i] = false
				}
				x.n = 0
				x.idx = map[string]int{}
				x.symKeys = nil
			}
		case []Value:
			if len(x) > 0 {
				et := c.Args[0].Type().Underlying().(*types.Slice).Elem()
				for i := range x {
					th.p.w.store(&x[i], zero(et))
				}
			}
		}
		return nil
	case "panic":
		th.goPanic(args[0])
	case "recover":
		return th.doRecover(fr)
	case "real":
		return real(args[0].(complex128))
	case "imag":
		return imag(args[0].(complex128))
	case "complex":
		return complex(args[0].(float64), args[1].(float64))
	case "ssa:wrapnilchk":
		if p, ok := args[0].(*Value); ok && p == nil {
			th.goPanicRT(fmt.Sprintf("value method %s called using nil pointer", describe(args[2])))
		}
		return args[0]
	case "SliceData":
		s := args[0].([]Value)
		if s == nil {
			return (*Value)(nil)
		}
		return &SlicePtr{s: s[:cap(s)]}
	case "StringData":
		return &StrPtr{s: args[0].(Str)}
	case "String": // unsafe.String(ptr, len)
		n := th.concInt(args[1])
		switch p := args[0].(type) {
		case *SlicePtr:
			if int(n) > len(p.s) {
				th.goPanicRT("unsafe.String: len out of range")
			}
			return mkStr(bytesOf(p.s[:n]))
		case *StrPtr:
			return p.s.Slice(0, int(n))
		case *Value:
			if n == 0 {
				return Str{}
			}
			if n == 1 && p != nil {
				return mkStr([]*Term{(*p).(*Term)})
			}
		}
		panic(unsupported{fmt.Sprintf("unsafe.String on %T", args[0])})
	case "Slice": // unsafe.Slice(ptr, len)
		n := th.concInt(args[1])
		switch p := args[0].(type) {
		case *SlicePtr:
			return p.s[:n]
		case *StrPtr:
			out := make([]Value, n)
			for i := range out {
				out[i] = p.s.At(i)
			}
			return out
		case *Value:
			if n == 0 || p == nil {
				return []Value(nil)
			}
		}
		panic(unsupported{fmt.Sprintf("unsafe.Slice on %T", args[0])})
	case "Add", "Offsetof", "Sizeof", "Alignof":
		panic(unsupported{"unsafe." + b.Name()})
	}
	panic(unsupported{fmt.Sprintf("builtin %s on %T", b.Name(), args)})
}

// storeRaw writes a slot that holds no aggregate to preserve (append into spare capacity).
func (w *Worker) storeRaw(addr *Value, v Value) {
	if w.inInit == 0 {
		w.undo = append(w.undo, undoRec{addr, *addr})
	}
	*addr = v
}
