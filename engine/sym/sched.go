package sym

import (
	"fmt"

	"golang.org/x/tools/go/ssa"
)

// Thread is a green thread of the interpreted program. Each runs in its own
// goroutine, but exactly one executes at a time (strict hand-off), so the
// interpretation of a path is deterministic given its decision sequence.
type Thread struct {
	id        int
	p         *Path
	resume    chan struct{}
	done      bool
	ready     func() bool // non-nil while blocked: true when the pending operation can proceed
	desc      string
	depth     int
	pending   []selCase
	completed *selResult
	top       *frame
	name      string
	curIns    ssa.Instruction
}

type selCase struct {
	send bool
	ch   *Chan
	val  Value
}

type selResult struct {
	idx int
	val Value
	ok  bool
}

type syncState struct {
	locked   bool
	readers  int
	counter  int64
	onceDone bool
	onceRun  bool
	owner    int
}

func (p *Path) newThread() *Thread {
	th := &Thread{id: len(p.threads), p: p, resume: make(chan struct{}, 1)}
	p.threads = append(p.threads, th)
	return th
}

func (p *Path) sync(addr *Value) *syncState {
	s := p.syncSt[addr]
	if s == nil {
		s = &syncState{}
		p.syncSt[addr] = s
	}
	return s
}

// spawn starts a new thread running fn(args...).
func (th *Thread) spawn(fnv Value, args []Value, name string) {
	p := th.p
	if p.w.inInit > 0 {
		p.w.res.InitWarnings["go statement in a package initialiser ignored"]++
		return
	}
	nt := p.newThread()
	nt.name = name
	p.wg.Add(1)
	go func() {
		defer p.wg.Done()
		var pv interface{}
		func() {
			defer func() { pv = recover() }()
			<-nt.resume
			if p.dead {
				panic(threadKilled{})
			}
			nt.call(nil, fnv, args)
		}()
		if _, ok := pv.(threadKilled); ok {
			return
		}
		if p.dead {
			return
		}
		if gp, ok := pv.(*GoPanic); ok {
			pv = p.reportPanic(nt, gp)
		}
		if pv != nil {
			// path-ending event raised in this thread
			select {
			case p.done <- pv:
			default:
			}
			return
		}
		// normal thread exit: hand the processor to somebody else
		nt.done = true
		func() {
			defer func() {
				if r := recover(); r != nil {
					if _, ok := r.(threadKilled); ok {
						return
					}
					select {
					case p.done <- r:
					default:
					}
				}
			}()
			nt.exitSwitch()
		}()
	}()
	// no scheduling point here: the new thread can be scheduled at the parent's
	// next synchronisation operation (preemption points are placed BEFORE
	// visible operations only)
}

func (p *Path) enabledThreads() []*Thread {
	var en []*Thread
	for _, t := range p.threads {
		if t.done {
			continue
		}
		if t.ready == nil || t.completed != nil || t.ready() {
			en = append(en, t)
		}
	}
	return en
}

// schedPoint is a scheduling point of the current thread. ready == nil means
// the pending operation can always proceed.
func (th *Thread) schedPoint(ready func() bool, desc string) {
	p := th.p
	if p.cur != th {
		panic(fmt.Sprintf("schedPoint: thread %d is not current (%d)", th.id, p.cur.id))
	}
	if len(p.threads) == 1 && ready == nil {
		return
	}
	if p.w.inInit > 0 {
		// package initialisers run to completion: no scheduling decisions
		// (they execute once per worker, not once per path)
		if ready != nil && !ready() {
			panic(initAbort{"package initialiser blocks on " + desc})
		}
		return
	}
	th.ready = ready
	th.desc = desc
	// time passes when the running thread blocks (and at time.Now / Sleep),
	// not at every scheduling point
	if len(p.timers) > 0 && ready != nil && th.completed == nil && !ready() {
		p.advanceClock()
	}
	en := p.enabledThreads()
	if len(en) == 0 && p.pendingTimers() {
		en = p.idleUntilTimer()
	}
	if len(en) == 0 {
		th.ready = nil
		p.deadlock()
	}
	// default: keep running the current thread; else lowest id
	def := en[0]
	for _, t := range en {
		if t == th {
			def = t
		}
	}
	pick := def
	if len(en) > 1 && p.delays < p.eng.Cfg.DelayBound {
		// order: default first, then the others by id
		order := []*Thread{def}
		for _, t := range en {
			if t != def {
				order = append(order, t)
			}
		}
		k := p.choose(len(order))
		if k > 0 {
			p.delays++
		}
		pick = order[k]
	}
	if pick == th {
		th.ready = nil
		return
	}
	p.logf("switch T%d -> T%d at %s", th.id, pick.id, desc)
	p.cur = pick
	pick.resume <- struct{}{}
	<-th.resume
	if p.dead {
		panic(threadKilled{})
	}
	th.ready = nil
}

// exitSwitch passes control on when a thread finishes.
func (th *Thread) exitSwitch() {
	p := th.p
	if len(p.timers) > 0 {
		p.advanceClock()
	}
	en := p.enabledThreads()
	if len(en) == 0 && p.pendingTimers() {
		en = p.idleUntilTimer()
	}
	if len(en) == 0 {
		p.deadlock()
	}
	pick := en[0]
	if len(en) > 1 && p.delays < p.eng.Cfg.DelayBound {
		k := p.choose(len(en))
		if k > 0 {
			p.delays++
		}
		pick = en[k]
	}
	p.cur = pick
	pick.resume <- struct{}{}
}

func (p *Path) deadlock() {
	msg := "all threads blocked:"
	for _, t := range p.threads {
		if !t.done {
			msg += fmt.Sprintf(" T%d(%s)", t.id, t.desc)
		}
	}
	p.flushAsserts()
	p.logf("DEADLOCK %s", msg)
	p.fail("deadlock", "deadlock", msg)
}

// idleUntilTimer: nothing can run, so time passes until some timer expires.
func (p *Path) idleUntilTimer() []*Thread {
	if p.eng.Cfg.ConcreteClock {
		// jump to the earliest concrete deadline that lies ahead (or far ahead
		// if the pending deadlines are symbolic)
		var best *Term
		for _, ch := range p.timers {
			if ch.timer == nil || !ch.timer.active {
				continue
			}
			d := ch.timer.deadline
			if d.Op != OpConst || p.clock.Op != OpConst {
				best = nil
				break
			}
			if d.SInt() >= p.clock.SInt() && (best == nil || d.SInt() < best.SInt()) {
				best = d
			}
		}
		if best != nil {
			p.clock = BV(64, uint64(best.SInt()))
		} else if p.clock.Op == OpConst && p.clock.SInt() < 1<<61 {
			p.clock = BV(64, 1<<61)
		} else {
			p.clock = Bin(OpAdd, p.clock, BV(64, 1<<40))
		}
		return p.enabledThreads()
	}
	p.advanceClock()
	some := FalseT
	for _, ch := range p.timers {
		if ch.timer != nil && ch.timer.active {
			some = Or(some, Cmp(OpUle, ch.timer.deadline, p.clock))
		}
	}
	p.assume(some)
	if p.w.solver.CheckWith() == Unsat {
		// no timer can ever expire within the clock range: genuinely stuck
		return nil
	}
	return p.enabledThreads()
}

func (p *Path) pendingTimers() bool {
	for _, ch := range p.timers {
		if ch.timer != nil && ch.timer.active {
			return true
		}
	}
	return false
}

// advanceClock lets an arbitrary amount of time pass.
func (p *Path) advanceClock() {
	if p.eng.Cfg.ConcreteClock {
		// discrete-event time: a small concrete tick
		p.clock = Bin(OpAdd, p.clock, BV(64, 1000))
		return
	}
	nc := p.freshVar("clock", IntW)
	p.assume(Cmp(OpSle, p.clock, nc))
	p.assume(Cmp(OpSle, nc, IntC(1<<62)))
	p.clock = nc
}

// ---- channels ----

func (p *Path) newChan(capacity int) *Chan {
	p.chanN++
	return &Chan{cap: capacity, id: p.chanN}
}

func (p *Path) partner(self *Thread, ch *Chan, wantSend bool) (*Thread, int) {
	for _, t := range p.threads {
		if t == self || t.done || t.completed != nil {
			continue
		}
		for i, c := range t.pending {
			if c.ch == ch && c.send == wantSend {
				return t, i
			}
		}
	}
	return nil, -1
}

// maxTickerFires bounds how often one ticker fires on a path (stated bound).
const maxTickerFires = 2

// timerReady decides (forking if symbolic) whether a timer channel has fired,
// and if so deposits the tick.
func (p *Path) timerPoll(ch *Chan) {
	ts := ch.timer
	if ts == nil || !ts.active || len(ch.buf) >= 1 {
		return
	}
	if ts.polledAt == p.clock {
		return // already decided "not yet" for this instant
	}
	ts.polledAt = p.clock
	if p.branch(Cmp(OpUle, ts.deadline, p.clock)) {
		ch.buf = append(ch.buf, p.timeValue(p.clock))
		if ts.period != nil {
			ts.deadline = Bin(OpAdd, ts.deadline, ts.period)
			ts.fires++
			if ts.fires >= maxTickerFires {
				// bounded exploration: a ticker fires at most maxTickerFires times per path
				ts.active = false
			}
		} else {
			ts.active = false
		}
		ts.fired = true
	}
}

func (p *Path) caseReady(self *Thread, c selCase) bool {
	if c.ch == nil {
		return false
	}
	if c.send {
		if c.ch.closed || len(c.ch.buf) < c.ch.cap {
			return true
		}
		// a rendezvous exists only on unbuffered channels: on a full buffered
		// channel a pending receiver is merely not scheduled yet (it will take
		// the head of the buffer), the send has to wait for the free slot
		if c.ch.cap != 0 {
			return false
		}
		t, _ := p.partner(self, c.ch, false)
		return t != nil
	}
	p.timerPoll(c.ch)
	if len(c.ch.buf) > 0 || c.ch.closed {
		return true
	}
	if c.ch.cap != 0 {
		return false
	}
	t, _ := p.partner(self, c.ch, true)
	return t != nil
}

// selectOp performs a (possibly single-case) select.
func (th *Thread) selectOp(cases []selCase, hasDefault bool, desc string) selResult {
	p := th.p
	// only an operation that can block is a rendezvous partner for others: a
	// select with a default case never waits
	if !hasDefault {
		th.pending = cases
	}
	th.completed = nil
	anyReady := func() bool {
		for _, c := range cases {
			if p.caseReady(th, c) {
				return true
			}
		}
		return hasDefault
	}
	th.schedPoint(anyReady, desc)
	th.pending = nil
	if th.completed != nil {
		r := *th.completed
		th.completed = nil
		return r
	}
	var ready []int
	for i, c := range cases {
		if p.caseReady(th, c) {
			ready = append(ready, i)
		}
	}
	if len(ready) == 0 {
		if hasDefault {
			return selResult{idx: -1}
		}
		panic("selectOp: woke up with nothing ready")
	}
	i := ready[p.choose(len(ready))]
	c := cases[i]
	ch := c.ch
	if c.send {
		if ch.closed {
			th.goPanicStr("send on closed channel")
		}
		if len(ch.buf) < ch.cap {
			p.chanMut(ch)
			ch.buf = append(ch.buf, c.val)
			return selResult{idx: i}
		}
		t, j := p.partner(th, ch, false)
		t.completed = &selResult{idx: j, val: c.val, ok: true}
		return selResult{idx: i}
	}
	if len(ch.buf) > 0 {
		p.chanMut(ch)
		v := ch.buf[0]
		ch.buf = append([]Value(nil), ch.buf[1:]...)
		return selResult{idx: i, val: v, ok: true}
	}
	if ch.closed {
		return selResult{idx: i, val: nil, ok: false}
	}
	t, j := p.partner(th, ch, true)
	v := t.pending[j].val
	t.completed = &selResult{idx: j}
	return selResult{idx: i, val: v, ok: true}
}

// chanMut records an undo action for channels that outlive the path.
func (p *Path) chanMut(ch *Chan) {
	if ch.id != 0 {
		return // created on this path
	}
	buf, closed := ch.buf, ch.closed
	p.w.undoFns = append(p.w.undoFns, func() { ch.buf, ch.closed = buf, closed })
}

func (th *Thread) chanSend(ch *Chan, v Value) {
	if ch == nil {
		th.schedPoint(func() bool { return false }, "send on nil chan")
	}
	th.selectOp([]selCase{{send: true, ch: ch, val: v}}, false, fmt.Sprintf("send ch%d", ch.id))
}

func (th *Thread) chanRecv(ch *Chan) (Value, bool) {
	if ch == nil {
		th.schedPoint(func() bool { return false }, "recv on nil chan")
	}
	r := th.selectOp([]selCase{{ch: ch}}, false, fmt.Sprintf("recv ch%d", ch.id))
	return r.val, r.ok
}

func (th *Thread) chanClose(ch *Chan) {
	if ch == nil {
		th.goPanicStr("close of nil channel")
	}
	th.schedPoint(nil, "close")
	if ch.closed {
		th.goPanicStr("close of closed channel")
	}
	th.p.chanMut(ch)
	ch.closed = true
	// a sender blocked on this channel panics when it resumes (caseReady -> closed)
}
