// symgo: bounded symbolic execution of Go functions from go/ssa with an SMT
// solver deciding feasibility and assertions.
package main

import (
	"encoding/json"
	"flag"
	"fmt"
	"go/ast"
	"os"
	"path/filepath"
	"runtime"
	"sort"
	"strconv"
	"strings"
	"time"

	"golang.org/x/tools/go/packages"
	"golang.org/x/tools/go/ssa"
	"golang.org/x/tools/go/ssa/ssautil"

	"verif/engine/sym"
)

type jobSpec struct {
	Harness string           `json:"harness"`
	Params  map[string]int64 `json:"params"`
}

type output struct {
	Pkg      string         `json:"pkg"`
	LoadS    float64        `json:"load_s"`
	BuildS   float64        `json:"build_s"`
	Jobs     []*sym.Results `json:"jobs"`
	Stubs    []string       `json:"stubs"`
	Opaque   []string       `json:"opaque"`
	Error    string         `json:"error,omitempty"`
	Solver   string         `json:"solver"`
	GoFiles  []string       `json:"harness_files"`
	Workers  int            `json:"workers"`
}

func main() {
	repo := flag.String("repo", "/repo", "repository root")
	pkgPath := flag.String("pkg", "", "import path of the package holding the harness (test variant is used)")
	overlayJSON := flag.String("overlay", "", "go-style overlay JSON ({\"Replace\":{virtual:real}})")
	harness := flag.String("harness", "", "comma-separated harness function names")
	jobsFile := flag.String("jobs", "", "JSON file: list of {harness, params}")
	params := flag.String("params", "", "k=v,k=v shape parameters (for -harness)")
	out := flag.String("out", "", "result JSON file (default stdout)")
	workers := flag.Int("workers", runtime.NumCPU(), "parallel workers")
	maxPaths := flag.Int64("max-paths", 200000, "path budget per job")
	maxDec := flag.Int("max-decisions", 4000, "decisions per path (unwinding bound)")
	maxSteps := flag.Int64("max-steps", 20000000, "SSA instructions per path (unwinding bound)")
	maxDepth := flag.Int("max-depth", 400, "call depth bound")
	delay := flag.Int("delay-bound", 2, "scheduler delay bound")
	witnesses := flag.Int("witnesses", 0, "keep up to N models of completed paths per cover id (for native validation)")
	mapOrder := flag.Int("map-order", 0, "explore iteration orders of maps with at most N entries (0: insertion order)")
	mapOrderIn := flag.String("map-order-in", "", "comma-separated substrings of function names whose range-over-map statements are permuted")
	knownFile := flag.String("known", "", "known findings JSON (open predicates)")
	solver := flag.String("solver", "z3-new -in", "solver command")
	transcript := flag.String("transcript", "", "write SMT transcripts with this prefix")
	verbose := flag.Bool("v", false, "progress on stderr")
	timeBudget := flag.Duration("time-budget", 0, "wall-clock budget per job (0 = none)")
	clockMode := flag.String("clock", "symbolic", "symbolic | concrete (discrete-event time)")
	qTimeout := flag.Int("query-timeout-ms", 30000, "per-query solver timeout")
	flag.Parse()

	res := &output{Pkg: *pkgPath, Solver: *solver, Workers: *workers}
	fail := func(format string, a ...interface{}) {
		res.Error = fmt.Sprintf(format, a...)
		write(*out, res)
		fmt.Fprintln(os.Stderr, "symgo:", res.Error)
		os.Exit(3)
	}
	sym.SolverCmd = strings.Fields(*solver)
	sym.QueryTimeoutMS = *qTimeout

	overlay := map[string][]byte{}
	var harnessFiles []string
	if *overlayJSON != "" {
		var ov struct{ Replace map[string]string }
		b, err := os.ReadFile(*overlayJSON)
		if err != nil {
			fail("overlay: %v", err)
		}
		if err := json.Unmarshal(b, &ov); err != nil {
			fail("overlay: %v", err)
		}
		for virt, real := range ov.Replace {
			c, err := os.ReadFile(real)
			if err != nil {
				fail("overlay: %v", err)
			}
			overlay[virt] = c
			harnessFiles = append(harnessFiles, virt)
		}
	}
	sort.Strings(harnessFiles)
	res.GoFiles = harnessFiles

	t0 := time.Now()
	cfg := &packages.Config{
		Mode:    packages.LoadAllSyntax,
		Dir:     *repo,
		Tests:   true,
		Overlay: overlay,
		Env:     append(os.Environ(), "GOFLAGS=-mod=mod", "GOPROXY=off", "GOSUMDB=off", "GOTOOLCHAIN=local", "CGO_ENABLED=0"),
	}
	initial, err := packages.Load(cfg, *pkgPath)
	if err != nil {
		fail("load: %v", err)
	}
	var target *packages.Package
	for _, p := range initial {
		if p.PkgPath == *pkgPath && strings.Contains(p.ID, ".test]") {
			target = p
		}
	}
	if target == nil {
		for _, p := range initial {
			if p.PkgPath == *pkgPath {
				target = p
			}
		}
	}
	if target == nil {
		fail("package %s not found", *pkgPath)
	}
	nerr := 0
	packages.Visit([]*packages.Package{target}, nil, func(p *packages.Package) {
		for _, e := range p.Errors {
			if nerr < 10 {
				fmt.Fprintf(os.Stderr, "load error: %s: %v\n", p.ID, e)
			}
			nerr++
		}
	})
	if nerr > 0 {
		fail("harness-out-of-date: %d load/type errors", nerr)
	}
	res.LoadS = time.Since(t0).Seconds()
	t1 := time.Now()
	prog, _ := ssautil.AllPackages([]*packages.Package{target}, ssa.InstantiateGenerics|ssa.SanityCheckFunctions&0)
	prog.Build()
	res.BuildS = time.Since(t1).Seconds()
	var spkg *ssa.Package
	for _, sp := range prog.AllPackages() {
		if sp.Pkg == target.Types {
			spkg = sp
		}
	}
	if spkg == nil {
		fail("ssa package for %s not found", target.ID)
	}

	// directives in overlay files of any loaded package
	stubs := map[string]map[string]*ssa.Function{"": {}}
	type exceptStub struct {
		name   string
		fn     *ssa.Function
		except []string
	}
	var stubExcept []exceptStub
	opaque := map[string]bool{}
	noinit := map[string]bool{}
	pure := map[string]bool{}
	for _, d := range defaultOpaque {
		opaque[d] = true
	}
	for _, d := range defaultNoInit {
		noinit[d] = true
	}
	packages.Visit([]*packages.Package{target}, nil, func(p *packages.Package) {
		if p != target && strings.Contains(p.ID, "[") && p.PkgPath == target.PkgPath {
			return
		}
		var sp *ssa.Package
		for _, x := range prog.AllPackages() {
			if x.Pkg == p.Types {
				sp = x
			}
		}
		for i, f := range p.Syntax {
			fname := p.CompiledGoFiles[i]
			if _, ok := overlay[fname]; !ok {
				continue
			}
			for _, cg := range f.Comments {
				for _, c := range cg.List {
					txt := strings.TrimSpace(strings.TrimPrefix(c.Text, "//"))
					if strings.HasPrefix(txt, "verif:opaque ") {
						opaque[strings.TrimSpace(strings.TrimPrefix(txt, "verif:opaque "))] = true
					}
					if strings.HasPrefix(txt, "verif:pure ") {
						pure[strings.TrimSpace(strings.TrimPrefix(txt, "verif:pure "))] = true
					}
					if strings.HasPrefix(txt, "verif:noinit ") {
						noinit[strings.TrimSpace(strings.TrimPrefix(txt, "verif:noinit "))] = true
					}
				}
			}
			for _, d := range f.Decls {
				fd, ok := d.(*ast.FuncDecl)
				if !ok || fd.Doc == nil || sp == nil {
					continue
				}
				for _, c := range fd.Doc.List {
					txt := strings.TrimSpace(strings.TrimPrefix(c.Text, "//"))
					if strings.HasPrefix(txt, "verif:stub ") {
						name := strings.TrimSpace(strings.TrimPrefix(txt, "verif:stub "))
						only := []string{""}
						if i := strings.Index(name, " @"); i > 0 {
							only = strings.Split(name[i+2:], ",")
							name = strings.TrimSpace(name[:i])
						}
						fn := sp.Func(fd.Name.Name)
						if fn == nil {
							fail("stub %s: function %s not found in ssa package", name, fd.Name.Name)
						}
						if len(only) > 0 && strings.HasPrefix(only[0], "!") {
							// "@!h1,h2": every harness except those listed
							only[0] = strings.TrimPrefix(only[0], "!")
							stubExcept = append(stubExcept, exceptStub{name: name, fn: fn, except: only})
							res.Stubs = append(res.Stubs, name+" => "+fn.String()+" except "+strings.Join(only, ","))
							continue
						}
						for _, h := range only {
							h = strings.TrimSpace(h)
							if stubs[h] == nil {
								stubs[h] = map[string]*ssa.Function{}
							}
							stubs[h][name] = fn
						}
						res.Stubs = append(res.Stubs, name+" => "+fn.String()+" "+strings.Join(only, ","))
					}
				}
			}
		}
	})
	// go:embed variables (string / []byte): contents are loaded from disk
	embeds := map[*ssa.Global][]byte{}
	packages.Visit([]*packages.Package{target}, nil, func(p *packages.Package) {
		var sp *ssa.Package
		for _, f := range p.Syntax {
			for _, d := range f.Decls {
				gd, ok := d.(*ast.GenDecl)
				if !ok || gd.Tok.String() != "var" {
					continue
				}
				for _, spec := range gd.Specs {
					vs := spec.(*ast.ValueSpec)
					doc := vs.Doc
					if doc == nil {
						doc = gd.Doc
					}
					if doc == nil || len(vs.Names) != 1 {
						continue
					}
					for _, c := range doc.List {
						if !strings.HasPrefix(c.Text, "//go:embed ") {
							continue
						}
						pat := strings.TrimSpace(strings.TrimPrefix(c.Text, "//go:embed "))
						dir := filepath.Dir(p.Fset.Position(f.Pos()).Filename)
						b, err := os.ReadFile(filepath.Join(dir, pat))
						if err != nil {
							continue
						}
						if sp == nil {
							for _, x := range prog.AllPackages() {
								if x.Pkg == p.Types {
									sp = x
								}
							}
						}
						if sp == nil {
							continue
						}
						if g, ok := sp.Members[vs.Names[0].Name].(*ssa.Global); ok {
							embeds[g] = b
						}
					}
				}
			}
		}
	})
	for k := range opaque {
		res.Opaque = append(res.Opaque, k)
	}
	sort.Strings(res.Opaque)
	sort.Strings(res.Stubs)

	var known []sym.KnownPred
	if *knownFile != "" {
		b, err := os.ReadFile(*knownFile)
		if err != nil {
			fail("known: %v", err)
		}
		var kf struct {
			Open []sym.KnownPred `json:"open"`
		}
		if err := json.Unmarshal(b, &kf); err != nil {
			fail("known: %v", err)
		}
		known = kf.Open
	}

	var jobs []jobSpec
	if *jobsFile != "" {
		b, err := os.ReadFile(*jobsFile)
		if err != nil {
			fail("jobs: %v", err)
		}
		if err := json.Unmarshal(b, &jobs); err != nil {
			fail("jobs: %v", err)
		}
	}
	for _, h := range strings.Split(*harness, ",") {
		if h == "" {
			continue
		}
		pm := map[string]int64{}
		for _, kv := range strings.Split(*params, ",") {
			if i := strings.IndexByte(kv, '='); i > 0 {
				v, _ := strconv.ParseInt(kv[i+1:], 10, 64)
				pm[kv[:i]] = v
			}
		}
		jobs = append(jobs, jobSpec{Harness: h, Params: pm})
	}
	if len(jobs) == 0 {
		fail("no harness given")
	}
	for _, j := range jobs {
		fn := spkg.Func(j.Harness)
		if fn == nil {
			fail("harness-out-of-date: function %s not found in %s", j.Harness, target.ID)
		}
		js := map[string]*ssa.Function{}
		for k, v := range stubs[""] {
			js[k] = v
		}
		for _, es := range stubExcept {
			skip := false
			for _, x := range es.except {
				if strings.TrimSpace(x) == j.Harness {
					skip = true
				}
			}
			if !skip {
				js[es.name] = es.fn
			}
		}
		for k, v := range stubs[j.Harness] {
			js[k] = v
		}
		eng := &sym.Engine{Prog: prog, Stubs: js, Opaque: opaque, NoInit: noinit, Embeds: embeds, Pure: pure}
		eng.Cfg = sym.Config{Workers: *workers, MaxPaths: *maxPaths, MaxDecisions: *maxDec, MaxSteps: *maxSteps,
			MaxDepth: *maxDepth, DelayBound: *delay, Witnesses: *witnesses, MapOrder: *mapOrder, MapOrderIn: splitNonEmpty(*mapOrderIn), Params: j.Params, Known: known, Transcript: *transcript,
			Verbose: *verbose, TimeBudget: *timeBudget, ConcreteClock: *clockMode == "concrete"}
		r := eng.Run(fn)
		res.Jobs = append(res.Jobs, r)
		if *verbose {
			fmt.Fprintf(os.Stderr, "[symgo] %s %v: paths=%d violations=%d unsupported=%d bounds=%d inconclusive=%d %.1fs\n",
				j.Harness, j.Params, r.Paths, len(r.Violations), len(r.Unsupported), len(r.BoundExceeded), len(r.Inconclusive), r.WallS)
		}
	}
	write(*out, res)
}

func write(path string, res *output) {
	b, _ := json.MarshalIndent(res, "", " ")
	if path == "" {
		os.Stdout.Write(b)
		fmt.Println()
		return
	}
	os.MkdirAll(filepath.Dir(path), 0o755)
	os.WriteFile(path, b, 0o644)
}

// packages whose functions are never interpreted: calls return zero values.
var defaultOpaque = []string{
	"github.com/prometheus/client_golang/prometheus",
	"github.com/prometheus/client_golang/prometheus/promhttp",
	"runtime/trace",
	"github.com/foxcpp/maddy/framework/log",
	"go.uber.org/zap",
	"log",
}

// packages whose initialisers are not run (their globals stay zero unless set by intrinsics).
var defaultNoInit = []string{
	"runtime", "syscall", "reflect", "internal/poll", "net", "internal/reflectlite", "os/signal",
	"internal/cpu", "internal/godebug", "crypto/rand", "internal/syscall/unix", "net/http", "crypto/tls", "crypto/x509",
}

func splitNonEmpty(s string) []string {
	var out []string
	for _, x := range strings.Split(s, ",") {
		if x = strings.TrimSpace(x); x != "" {
			out = append(out, x)
		}
	}
	return out
}
