package msgpipeline

import (
	"context"
	"errors"
	"fmt"

	"github.com/emersion/go-message/textproto"
	"github.com/emersion/go-smtp"
	"github.com/foxcpp/maddy/framework/buffer"
	"github.com/foxcpp/maddy/framework/log"
	"github.com/foxcpp/maddy/framework/module"
	"github.com/foxcpp/maddy/internal/modify"
	"github.com/foxcpp/maddy/internal/testutils"
)

func init() { verifRegister("harness_C09_pipeline", harness_C09_pipeline) }

// a well-behaved per-recipient target: exactly one status per accepted
// recipient, under the address it was given
type c09Target struct {
	fail     map[string]bool
	accepted []string
}

type c09Delivery struct{ t *c09Target }

func (t *c09Target) Start(ctx context.Context, m *module.MsgMetadata, from string) (module.Delivery, error) {
	return &c09Delivery{t}, nil
}
func (d *c09Delivery) AddRcpt(ctx context.Context, to string, o smtp.RcptOptions) error {
	d.t.accepted = append(d.t.accepted, to)
	return nil
}
func (d *c09Delivery) Body(ctx context.Context, h textproto.Header, b buffer.Buffer) error { return nil }
func (d *c09Delivery) BodyNonAtomic(ctx context.Context, sc module.StatusCollector, h textproto.Header, b buffer.Buffer) {
	for _, r := range d.t.accepted {
		if d.t.fail[r] {
			sc.SetStatus(r, errors.New("refused: "+r))
		} else {
			sc.SetStatus(r, nil)
		}
	}
}
func (d *c09Delivery) Abort(ctx context.Context) error  { return nil }
func (d *c09Delivery) Commit(ctx context.Context) error { return nil }

type c09Collector struct {
	count  map[string]int
	failed map[string]bool
}

func (c *c09Collector) SetStatus(r string, err error) {
	c.count[r]++
	if err != nil {
		c.failed[r] = true
	}
}

// The pipeline reports per-recipient results under the addresses the client
// supplied, exactly one per accepted recipient, whatever the rewriting.
func harness_C09_pipeline() {
	shape := nondetChoice("rewrite", 5) // 0 none, 1 one-to-one, 2 one-to-two, 3 two-to-one, 4 a->b and b->c with a and b both supplied
	verifTag("rewriteShape", shape)
	rw := map[string][]string{}
	clients := []string{"a@example.org"}
	switch shape {
	case 1:
		rw["a@example.org"] = []string{"x@example.net"}
	case 2:
		rw["a@example.org"] = []string{"x@example.net", "y@example.net"}
	case 3:
		clients = []string{"a@example.org", "b@example.org"}
		rw["a@example.org"] = []string{"x@example.net"}
		rw["b@example.org"] = []string{"x@example.net"}
	case 4:
		// a non-recursive forward table: the first recipient is rewritten to the
		// spelling of the second one, the second one to a third address
		clients = []string{"a@example.org", "b@example.org"}
		rw["a@example.org"] = []string{"b@example.org"}
		rw["b@example.org"] = []string{"c@example.org"}
	}
	if shape < 3 && nondetBool("second") {
		clients = append(clients, "c@example.org")
	}
	tgt := &c09Target{fail: map[string]bool{}}
	for _, e := range []string{"a@example.org", "b@example.org", "c@example.org", "x@example.net", "y@example.net"} {
		if nondetBool("fail." + e) {
			tgt.fail[e] = true
		}
	}
	// nested: the destination hands the message to another pipeline (reroute),
	// which delivers to the same target; both pipelines share the message metadata
	var outTarget module.DeliveryTarget = tgt
	if nondetBool("nested") {
		outTarget = &MsgPipeline{
			msgpipelineCfg: msgpipelineCfg{
				perSource: map[string]sourceBlock{},
				defaultSource: sourceBlock{
					perRcpt:     map[string]*rcptBlock{},
					defaultRcpt: &rcptBlock{targets: []module.DeliveryTarget{tgt}},
				},
			},
			Log: log.Logger{},
		}
		verifCover("C09.pipeline-nested")
	}
	d := MsgPipeline{
		msgpipelineCfg: msgpipelineCfg{
			globalModifiers: modify.Group{Modifiers: []module.Modifier{testutils.Modifier{InstName: "rw", RcptTo: rw}}},
			perSource:       map[string]sourceBlock{},
			defaultSource: sourceBlock{
				perRcpt:     map[string]*rcptBlock{},
				defaultRcpt: &rcptBlock{targets: []module.DeliveryTarget{outTarget}},
			},
		},
		Log: log.Logger{},
	}
	ctx := context.Background()
	meta := &module.MsgMetadata{ID: "c09", OriginalFrom: "sender@example.org"}
	dl, err := d.Start(ctx, meta, "sender@example.org")
	if err != nil {
		verifFail("C09.pipeline-start")
	}
	for _, r := range clients {
		if err := dl.AddRcpt(ctx, r, smtp.RcptOptions{}); err != nil {
			verifFail("C09.pipeline-addrcpt")
		}
	}
	col := &c09Collector{count: map[string]int{}, failed: map[string]bool{}}
	hdr := textproto.Header{}
	hdr.Add("Subject", "c09")
	dl.(module.PartialDelivery).BodyNonAtomic(ctx, col, hdr, buffer.MemoryBuffer{Slice: []byte("body\r\n")})
	dl.Commit(ctx)
	for _, r := range clients {
		if col.count[r] != 1 {
			verifLog("client recipient", r, "statuses", col.count[r])
			verifFail("C09.pipeline-status-count")
		}
	}
	for k := range col.count {
		if !contains(clients, k) {
			verifLog("status for", k)
			verifFail("C09.pipeline-status-for-unknown-address")
		}
	}
	// the reported failure is the failure of (one of) the addresses it was rewritten to
	for _, r := range clients {
		anyFail := false
		eff := rw[r]
		if eff == nil {
			eff = []string{r}
		}
		for _, e := range eff {
			if tgt.fail[e] {
				anyFail = true
			}
		}
		if col.failed[r] != anyFail {
			verifFail("C09.pipeline-status-value")
		}
	}
	verifCover("C09.pipeline-end")
	_ = fmt.Sprint
}

func contains(l []string, s string) bool {
	for _, x := range l {
		if x == s {
			return true
		}
	}
	return false
}
