package smtp_downstream

import (
	"context"
	"errors"
	"fmt"
	"io"

	"github.com/emersion/go-message/textproto"
	"github.com/emersion/go-smtp"
	"github.com/foxcpp/maddy/framework/buffer"
	"github.com/foxcpp/maddy/internal/smtpconn"
)

func init() { verifRegister("harness_C09_lmtp_downstream", harness_C09_lmtp_downstream) }

// The LMTP forwarder: lmtpDelivery.BodyNonAtomic over a connection whose
// LMTPData follows smtpconn.C's contract (decided by harness_C09_conn): the
// status callback is called for the first k accepted recipients, in order and
// under the addresses given to Rcpt; if the exchange breaks off after k < n
// answers (or before any) an error is returned.
var c09l struct {
	answered int
	status   []bool // per recipient: negative reply
	lateErr  bool
	rcpts    []string
}

//verif:stub (*github.com/foxcpp/maddy/internal/smtpconn.C).LMTPData @harness_C09_lmtp_downstream
func stubC09LMTPData(c *smtpconn.C, ctx context.Context, hdr textproto.Header, body io.Reader, cb func(string, *smtp.SMTPError)) error {
	for i := 0; i < c09l.answered; i++ {
		if c09l.status[i] {
			cb(c09l.rcpts[i], &smtp.SMTPError{Code: 550, EnhancedCode: smtp.EnhancedCode{5, 1, 1}, Message: "no such user"})
		} else {
			cb(c09l.rcpts[i], nil)
		}
	}
	if c09l.answered < len(c09l.rcpts) || c09l.lateErr {
		return errors.New("connection lost")
	}
	return nil
}

type c09lStatuses struct{ got map[string][]error }

func (s *c09lStatuses) SetStatus(r string, err error) { s.got[r] = append(s.got[r], err) }

type c09lFailingBuffer struct{ buffer.MemoryBuffer }

func (c09lFailingBuffer) Open() (io.ReadCloser, error) { return nil, errors.New("buffer: cannot open") }

func harness_C09_lmtp_downstream() {
	n := verifParam("rcpts", 3)
	c09l.rcpts = nil
	c09l.status = nil
	for i := 0; i < n; i++ {
		c09l.rcpts = append(c09l.rcpts, fmt.Sprintf("rcpt%d@example.org", i))
		c09l.status = append(c09l.status, nondetBool(fmt.Sprintf("negative%d", i)))
	}
	c09l.answered = nondetInt("answered", 0, n)
	c09l.answered = verifConcretize(c09l.answered)
	c09l.lateErr = nondetBool("lateErr")
	openFails := verifParam("openfail", 0) == 1 && nondetBool("openFails")

	d := &lmtpDelivery{&delivery{
		u:     &Downstream{modName: "target.lmtp", lmtp: true},
		rcpts: append([]string(nil), c09l.rcpts...),
		conn:  smtpconn.New(),
	}}
	st := &c09lStatuses{got: map[string][]error{}}
	hdr := textproto.Header{}
	hdr.Add("Subject", "c09")
	var body buffer.Buffer = buffer.MemoryBuffer{Slice: []byte("x\r\n")}
	if openFails {
		body = c09lFailingBuffer{}
	}
	d.BodyNonAtomic(context.Background(), st, hdr, body)

	for i, r := range c09l.rcpts {
		if len(st.got[r]) != 1 {
			verifLog("recipient", r, "results", len(st.got[r]), "answered", c09l.answered)
			verifFail("C09.lmtp-downstream-result-count")
		}
		err := st.got[r][0]
		if openFails {
			if err == nil {
				verifFail("C09.lmtp-downstream-success-without-transfer")
			}
			continue
		}
		if i < c09l.answered {
			if (err != nil) != c09l.status[i] {
				verifLog("recipient", r, "negative reply", c09l.status[i], "reported error", err != nil)
				verifFail("C09.lmtp-downstream-result-differs-from-reply")
			}
		} else if err == nil {
			verifLog("recipient", r, "was never answered by the next hop")
			verifFail("C09.lmtp-downstream-unanswered-reported-delivered")
		}
	}
	if len(st.got) != len(c09l.rcpts) {
		verifFail("C09.lmtp-downstream-result-for-foreign-address")
	}
	if c09l.answered < n {
		verifCover("C09.lmtp-downstream-broken-off")
	} else {
		verifCover("C09.lmtp-downstream-complete")
	}
}
