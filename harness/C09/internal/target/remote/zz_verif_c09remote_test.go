package remote

import (
	"context"
	"fmt"

	"github.com/emersion/go-message/textproto"
	"github.com/emersion/go-smtp"
	"github.com/foxcpp/maddy/framework/buffer"
	"github.com/foxcpp/maddy/framework/module"
)

func init() { verifRegister("harness_C09_remote", harness_C09_remote) }

type c09rStatuses struct{ got map[string][]error }

func (s *c09rStatuses) SetStatus(r string, err error) { s.got[r] = append(s.got[r], err) }

// The remote target reporting per recipient (BodyNonAtomic) and atomically
// (Body): recipients of two domains travel over two connections; each accepted
// recipient gets exactly one result, namely the outcome of the DATA exchange
// on its own connection; refused recipients and foreign addresses get none.
// World and connection model are those of the C05 harness (next-hop refusals
// symbolic).
func harness_C09_remote() {
	c05.enMTASTS, c05.enDANE, c05.enDNSSEC, c05.enLocal = false, false, false, false
	c05.allowOverride = true
	c05.noObligation, c05.hopFaults, c05.plain = true, true, true
	c05World(1, 2)
	rt := c05Target(true)
	ctx := context.Background()
	c05.msgs = []c05Msg{{}}
	c05.cur = 0
	meta := &module.MsgMetadata{ID: "c09r", SMTPOpts: smtp.MailOptions{}}
	d, err := rt.Start(ctx, meta, "sender@src.example")
	if err != nil {
		verifFail("C09.harness-start")
	}
	// two recipients in the first domain, one in the second
	rcpts := []string{"u1@" + c05.doms[0].name, "u2@" + c05.doms[0].name, "u3@" + c05.doms[1].name}
	host := []*c05Host{c05.doms[0].hosts[0], c05.doms[0].hosts[0], c05.doms[1].hosts[0]}
	accepted := map[string]bool{}
	for _, r := range rcpts {
		if err := d.AddRcpt(ctx, r, smtp.RcptOptions{}); err == nil {
			accepted[r] = true
		}
	}
	hdr := textproto.Header{}
	hdr.Add("Subject", "c09")
	body := buffer.MemoryBuffer{Slice: []byte("x\r\n")}
	st := &c09rStatuses{got: map[string][]error{}}
	atomic := nondetBool("atomic")
	var bodyErr error
	if atomic {
		bodyErr = d.Body(ctx, hdr, body)
	} else {
		d.(module.PartialDelivery).BodyNonAtomic(ctx, st, hdr, body)
	}
	d.Commit(ctx)
	rt.Close()

	anyFailed := false
	for i, r := range rcpts {
		if !accepted[r] {
			if len(st.got[r]) != 0 {
				verifFail("C09.remote-result-for-refused-recipient")
			}
			continue
		}
		failed := host[i].dataFail
		if failed {
			anyFailed = true
		}
		if atomic {
			continue
		}
		if len(st.got[r]) != 1 {
			verifLog("recipient", r, "results", len(st.got[r]))
			verifFail("C09.remote-result-count")
		}
		if (st.got[r][0] != nil) != failed {
			verifLog("recipient", r, "its connection failed", failed, "reported", fmt.Sprint(st.got[r][0]))
			verifFail("C09.remote-result-differs-from-its-connection")
		}
	}
	if atomic {
		if (bodyErr != nil) != anyFailed {
			verifFail("C09.remote-atomic-result-differs")
		}
		verifCover("C09.remote-atomic")
		return
	}
	for r := range st.got {
		if !accepted[r] {
			verifFail("C09.remote-result-for-foreign-address")
		}
	}
	verifCover("C09.remote-per-recipient")
}
