package smtpconn

import (
	"context"
	"errors"
	"fmt"
	"io"
	"strings"

	"github.com/emersion/go-message/textproto"
	"github.com/emersion/go-smtp"
	"github.com/foxcpp/maddy/framework/config"
	"github.com/foxcpp/maddy/internal/testutils"
)

func init() { verifRegister("harness_C09_conn", harness_C09_conn) }

// ---- model of the next hop behind go-smtp's Client (symgo only) ----

type c09Plan struct {
	utf8     bool
	lmtp     bool
	rcptFail map[string]int // wire address -> 0 ok, 4, 5
	dataFail int            // 0 ok, 4, 5 (SMTP DATA / LMTP whole-transaction failure)
	lmtpStat []int          // per accepted recipient (in order): 0 ok, 4, 5
}

type c09Client struct {
	plan  *c09Plan
	rcpts []string // as passed to Client.Rcpt in this transaction
	cb    func(string, *smtp.SMTPError)
}

var c09Clients = map[*smtp.Client]*c09Client{}

func c09Err(class int, what string) *smtp.SMTPError {
	if class == 4 {
		return &smtp.SMTPError{Code: 451, EnhancedCode: smtp.EnhancedCode{4, 0, 0}, Message: what}
	}
	return &smtp.SMTPError{Code: 550, EnhancedCode: smtp.EnhancedCode{5, 0, 0}, Message: what}
}

//verif:stub (*github.com/emersion/go-smtp.Client).Extension
func stubExtension(c *smtp.Client, ext string) (bool, string) {
	if ext == "SMTPUTF8" {
		return c09Clients[c].plan.utf8, ""
	}
	return false, ""
}

//verif:stub (*github.com/emersion/go-smtp.Client).Mail
func stubMail(c *smtp.Client, from string, opts *smtp.MailOptions) error {
	c09Clients[c].rcpts = nil
	return nil
}

//verif:stub (*github.com/emersion/go-smtp.Client).Rcpt
func stubRcpt(c *smtp.Client, to string, opts *smtp.RcptOptions) error {
	m := c09Clients[c]
	if f := m.plan.rcptFail[to]; f != 0 {
		return c09Err(f, "rcpt refused")
	}
	m.rcpts = append(m.rcpts, to)
	return nil
}

//verif:stub (*github.com/emersion/go-smtp.Client).Reset
func stubReset(c *smtp.Client) error {
	c09Clients[c].rcpts = nil
	return nil
}

type c09Writer struct {
	m    *c09Client
	lmtp bool
}

func (w *c09Writer) Write(b []byte) (int, error) { return len(b), nil }
func (w *c09Writer) Close() error {
	p := w.m.plan
	if p.dataFail != 0 {
		return c09Err(p.dataFail, "data refused")
	}
	if w.lmtp {
		for i, r := range w.m.rcpts {
			st := 0
			if i < len(p.lmtpStat) {
				st = p.lmtpStat[i]
			}
			if st == 0 {
				w.m.cb(r, nil)
			} else {
				w.m.cb(r, c09Err(st, "recipient status"))
			}
		}
	}
	return nil
}

//verif:stub (*github.com/emersion/go-smtp.Client).Data
func stubData(c *smtp.Client) (io.WriteCloser, error) {
	return &c09Writer{m: c09Clients[c]}, nil
}

//verif:stub (*github.com/emersion/go-smtp.Client).LMTPData
func stubLMTPData(c *smtp.Client, cb func(string, *smtp.SMTPError)) (io.WriteCloser, error) {
	m := c09Clients[c]
	m.cb = cb
	return &c09Writer{m: m, lmtp: true}, nil
}

//verif:stub (*github.com/emersion/go-smtp.Client).Close
func stubClientClose(c *smtp.Client) error { return nil }

//verif:stub (*github.com/emersion/go-smtp.Client).Quit
func stubClientQuit(c *smtp.Client) error { return nil }

// ---- recipients: spellings that need conversion for a next hop without SMTPUTF8 ----

var c09Rcpts = []string{
	"plain@example.org",
	"test@тест.example.org", // IDN domain: sent as A-label when SMTPUTF8 is missing
	"тест@example.org",      // non-ASCII local part: not convertible, refused locally without SMTPUTF8
	"test@xn--e1aybc.example.org", // the A-label spelling of the IDN recipient: both go on the wire as the same string
	"Upper@Example.ORG",
	"other@example.org",
}

var c09Wire = map[string]string{"test@тест.example.org": "test@xn--e1aybc.example.org"}

var c09Backend *testutils.SMTPBackend

func c09SetRcptFail(plan *c09Plan, r string) {
	for _, k := range []string{r, c09Wire[r]} {
		if k == "" {
			continue
		}
		plan.rcptFail[k] = 5
		if c09Backend != nil {
			c09Backend.RcptErr[k] = c09Err(5, "rcpt refused")
		}
	}
}

func c09Setup(plan *c09Plan) (*C, func()) {
	if verifSymbolic() {
		cl := new(smtp.Client)
		c09Clients[cl] = &c09Client{plan: plan}
		return &C{cl: cl, serverName: "mx.example.org", lmtp: plan.lmtp}, func() {}
	}
	// native replay: a real scripted server
	port := "25925"
	be, srv := testutils.SMTPServer(verifT, "127.0.0.1:"+port, func(s *smtp.Server) {
		s.EnableSMTPUTF8 = plan.utf8
		s.LMTP = plan.lmtp
	})
	c09Backend = be
	be.RcptErr = map[string]error{}
	for k, f := range plan.rcptFail {
		if f != 0 {
			be.RcptErr[k] = c09Err(f, "rcpt refused")
		}
	}
	if plan.dataFail != 0 {
		be.DataErr = c09Err(plan.dataFail, "data refused")
	}
	for _, st := range plan.lmtpStat {
		if st == 0 {
			be.LMTPDataErr = append(be.LMTPDataErr, nil)
		} else {
			be.LMTPDataErr = append(be.LMTPDataErr, c09Err(st, "recipient status"))
		}
	}
	for len(be.LMTPDataErr) < 8 {
		be.LMTPDataErr = append(be.LMTPDataErr, nil)
	}
	c := New()
	c.Log = testutils.Logger(verifT, "smtpconn")
	var err error
	if plan.lmtp {
		_, err = c.ConnectLMTP(context.Background(), config.Endpoint{Scheme: "tcp", Host: "127.0.0.1", Port: port}, false, nil)
	} else {
		_, err = c.Connect(context.Background(), config.Endpoint{Scheme: "tcp", Host: "127.0.0.1", Port: port}, false, nil)
	}
	if err != nil {
		verifT.Fatal(err)
	}
	return c, func() { c.Close(); srv.Close() }
}

// Consecutive transactions over one connection: the recipients the connection
// reports as accepted (and, for LMTP, the per-recipient statuses) name exactly
// the recipients accepted in THIS transaction, under the addresses given.
func harness_C09_conn() {
	ntx := verifParam("tx", 2)
	nr := verifParam("rcpts", 2)
	plan := &c09Plan{utf8: nondetBool("smtputf8"), lmtp: nondetBool("lmtp"), rcptFail: map[string]int{}}
	type txPlan struct {
		rcpts []string
	}
	var txs []txPlan
	for t := 0; t < ntx; t++ {
		var tp txPlan
		n := nr
		if t > 0 {
			n = 1 // later transactions: one recipient is enough to see what leaks over
		}
		for i := 0; i < n; i++ {
			tp.rcpts = append(tp.rcpts, c09Rcpts[nondetChoice(fmt.Sprintf("rcpt.%d.%d", t, i), verifParam("alphabet", 3))])
		}
		txs = append(txs, tp)
	}
	if nondetBool("datafail") {
		plan.dataFail = 5
	}
	for i := 0; i < nr; i++ {
		st := 0
		if nondetBool(fmt.Sprintf("lmtpstat%d", i)) {
			st = 5
		}
		plan.lmtpStat = append(plan.lmtpStat, st)
	}
	c, done := c09Setup(plan)
	defer done()
	ctx := context.Background()
	for t, tp := range txs {
		if t > 0 {
			// connection reuse as the pool does it
			if err := c.Client().Reset(); err != nil {
				return
			}
		}
		if err := c.Mail(ctx, "sender@example.net", smtp.MailOptions{UTF8: true}); err != nil {
			verifStop()
		}
		var accepted []string
		for _, r := range tp.rcpts {
			if contains(accepted, r) {
				continue // duplicates are outside this harness
			}
			// the next hop's answer to this RCPT is decided now
			if nondetBool(fmt.Sprintf("rcptfail.%d.%s", t, r)) {
				c09SetRcptFail(plan, r)
			}
			if err := c.Rcpt(ctx, r, smtp.RcptOptions{}); err == nil {
				accepted = append(accepted, r)
			}
		}
		got := c.Rcpts()
		if len(got) != len(accepted) {
			verifLog("tx", t, "accepted", len(accepted), "reported", len(got))
			verifFail("C09.accepted-list-size")
		}
		for _, r := range accepted {
			if !contains(got, r) {
				verifFail("C09.accepted-recipient-not-under-given-address")
			}
		}
		if len(accepted) == 0 {
			continue
		}
		hdr := textproto.Header{}
		hdr.Add("Subject", "c09")
		if plan.lmtp {
			statuses := map[string]int{}
			err := c.LMTPData(ctx, hdr, strings.NewReader("body\r\n"), func(rcpt string, st *smtp.SMTPError) {
				statuses[rcpt]++
			})
			if err == nil {
				for _, r := range accepted {
					if statuses[r] != 1 {
						verifFail("C09.lmtp-status-not-under-given-address")
					}
				}
				if len(statuses) != len(accepted) {
					verifFail("C09.lmtp-status-for-foreign-address")
				}
				verifCover("C09.lmtp-statuses")
			} else {
				return // connection state is undefined after a failed DATA
			}
		} else {
			if err := c.Data(ctx, hdr, strings.NewReader("body\r\n")); err != nil {
				return
			}
			verifCover("C09.smtp-data-ok")
		}
	}
	verifCover("C09.conn-end")
	_ = errors.New
}

func contains(l []string, s string) bool {
	for _, x := range l {
		if x == s {
			return true
		}
	}
	return false
}
