package dns

func init() {
	verifRegister("harness_C17_dns_equal_uf", harness_C17_dns_equal_uf)
	verifRegister("harness_C17_dns_alphabet", harness_C17_dns_alphabet)
	verifRegister("harness_C17_dns_labels", harness_C17_dns_labels)
}

type ufEntry struct{ arg, key string }

var ufTable []ufEntry

// ForLookup as an uninterpreted function (see the address harness).
//
//verif:stub github.com/foxcpp/maddy/framework/dns.ForLookup @harness_C17_dns_equal_uf
func stubForLookup(domain string) (string, error) {
	k := len(ufTable)
	l := nondetChoice("uf.len", 3)
	key := nondetString("uf.key", l)
	for i := 0; i < k; i++ {
		if ufTable[i].arg == domain {
			verifAssume(ufTable[i].key == key)
		}
	}
	ufTable = append(ufTable, ufEntry{domain, key})
	return key, nil
}

func harness_C17_dns_equal_uf() {
	ufTable = nil
	a, b, c := nondetString("a", verifParam("la", 1)), nondetString("b", verifParam("lb", 1)), nondetString("c", verifParam("lc", 1))
	if !Equal(a, a) {
		verifFail("C17.dns-equal-reflexive")
	}
	ab, ba := Equal(a, b), Equal(b, a)
	if ab != ba {
		verifFail("C17.dns-equal-symmetric")
	}
	bc, ac := Equal(b, c), Equal(a, c)
	if ab && bc && !ac {
		verifFail("C17.dns-equal-transitive")
	}
	ka, _ := ForLookup(a)
	kb, _ := ForLookup(b)
	if ab != (ka == kb) {
		verifFail("C17.dns-equal-iff-same-key")
	}
	if ab && a != b {
		verifCover("C17.dns-equal-distinct")
	}
	if !ab {
		verifCover("C17.dns-equal-false")
	}
}

var dnsAlphabet = [][]string{
	{"example.org", "EXAMPLE.ORG", "Example.Org", "example.org."},
	{"тест.example.org", "xn--e1aybc.example.org", "ТЕСТ.example.org", "XN--E1AYBC.EXAMPLE.ORG", "Xn--E1aybc.example.org"},
	{"bücher.example", "xn--bcher-kva.example", "bücher.example", "BÜCHER.example"},
	{"faß.example"},
}

// Label-wise composition: every position of a two- or three-label domain takes a
// label class, the two spellings pick their variant of that class independently
// (so A-labels, U-labels and case variants occur in every position).
var dnsLabels = [][]string{
	{"example", "EXAMPLE", "Example"},
	{"тест", "xn--e1aybc", "ТЕСТ", "XN--E1AYBC"},
	{"bücher", "xn--bcher-kva", "bu\u0308cher", "BÜCHER"},
	{"org", "ORG"},
}

func harness_C17_dns_labels() {
	n := verifParam("labels", 2)
	a, b := "", ""
	for i := 0; i < n; i++ {
		g := nondetChoice("class", len(dnsLabels))
		grp := dnsLabels[g]
		if i > 0 {
			a += "."
			b += "."
		}
		a += grp[nondetChoice("i", len(grp))]
		b += grp[nondetChoice("j", len(grp))]
	}
	if nondetBool("dotA") {
		a += "."
	}
	ka, err := ForLookup(a)
	if err != nil {
		verifFail("C17.dns-forlookup-error")
	}
	kka, err := ForLookup(ka)
	if err != nil || kka != ka {
		verifFail("C17.dns-forlookup-idempotent")
	}
	kb, _ := ForLookup(b)
	if ka != kb {
		verifLog("a", a, "b", b, "ka", ka, "kb", kb)
		verifFail("C17.dns-variants-one-key")
	}
	if !Equal(a, b) {
		verifFail("C17.dns-variants-equal")
	}
	as, err := SelectIDNA(false, ka)
	if err != nil {
		verifFail("C17.dns-toascii-error")
	}
	un, err := SelectIDNA(true, as)
	if err != nil || un != ka {
		verifFail("C17.dns-ascii-unicode-roundtrip")
	}
	verifCover("C17.dns-labels-end")
}

func harness_C17_dns_alphabet() {
	g := nondetChoice("group", len(dnsAlphabet))
	grp := dnsAlphabet[g]
	a, b := grp[nondetChoice("i", len(grp))], grp[nondetChoice("j", len(grp))]
	ka, err := ForLookup(a)
	if err != nil {
		verifFail("C17.dns-forlookup-error")
	}
	kka, err := ForLookup(ka)
	if err != nil || kka != ka {
		verifFail("C17.dns-forlookup-idempotent")
	}
	kb, _ := ForLookup(b)
	if ka != kb {
		verifFail("C17.dns-variants-one-key")
	}
	if !Equal(a, b) {
		verifFail("C17.dns-variants-equal")
	}
	as, err := SelectIDNA(false, ka)
	if err != nil {
		verifFail("C17.dns-toascii-error")
	}
	un, err := SelectIDNA(true, as)
	if err != nil || un != ka {
		verifFail("C17.dns-ascii-unicode-roundtrip")
	}
	verifCover("C17.dns-alphabet-end")
}
