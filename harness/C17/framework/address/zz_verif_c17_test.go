package address

import (
	"strings"
	"unicode/utf8"
)

// C17 harnesses: (a) byte-level laws on fully symbolic strings of concrete
// length n (shape parameter), (b) Equal as the kernel relation of the lookup
// key with ForLookup replaced by an uninterpreted function (Ackermann-style
// consistency table kept by the stub), (c) finite-alphabet normalisation laws
// (concretised: the real idna/norm code runs on each concrete alternative).

func init() {
	verifRegister("harness_C17_isascii", harness_C17_isascii)
	verifRegister("harness_C17_split", harness_C17_split)
	verifRegister("harness_C17_quote", harness_C17_quote)
	verifRegister("harness_C17_fqdn", harness_C17_fqdn)
	verifRegister("harness_C17_nopanic", harness_C17_nopanic)
	verifRegister("harness_C17_equal_uf", harness_C17_equal_uf)
	verifRegister("harness_C17_alphabet", harness_C17_alphabet)
}

// IsASCII(s) <=> every byte < 0x80 (<=> every character below U+0080).
func harness_C17_isascii() {
	n := verifParam("n", 3)
	s := nondetString("s", n)
	allLow := true
	for i := 0; i < len(s); i++ {
		if s[i] >= 0x80 {
			allLow = false
		}
	}
	got := IsASCII(s)
	if got && !allLow {
		verifFail("C17.isascii-accepts-non-ascii")
	}
	if !got && allLow {
		verifFail("C17.isascii-rejects-ascii")
	}
	if got {
		verifCover("C17.isascii-true")
	} else {
		verifCover("C17.isascii-false")
	}
}

// Split then re-join round-trips.
func harness_C17_split() {
	n := verifParam("n", 4)
	s := nondetString("s", n)
	mbox, dom, err := Split(s)
	if err != nil {
		verifCover("C17.split-err")
		if mbox != "" || dom != "" {
			verifFail("C17.split-err-nonempty")
		}
		return
	}
	if dom == "" {
		// only the special postmaster address has no domain
		if !strings.EqualFold(s, "postmaster") || mbox != s {
			verifFail("C17.split-nodomain")
		}
		verifCover("C17.split-postmaster")
		return
	}
	verifCover("C17.split-ok")
	if mbox == "" {
		verifFail("C17.split-empty-mbox")
	}
	if mbox+"@"+dom != s {
		verifFail("C17.split-roundtrip")
	}
	if strings.IndexByte(dom, '@') >= 0 {
		verifFail("C17.split-domain-has-at")
	}
}

// UnquoteMbox(QuoteMbox(m)) == m for every non-empty valid-UTF-8 local part.
func harness_C17_quote() {
	n := verifParam("n", 3)
	m := nondetString("m", n)
	verifAssume(len(m) > 0)
	verifAssume(utf8.ValidString(m))
	q := QuoteMbox(m)
	u, err := UnquoteMbox(q)
	if err != nil {
		verifFail("C17.quote-unquote-error")
	}
	if u != m {
		verifFail("C17.quote-unquote-roundtrip")
	}
	if q != m {
		verifCover("C17.quote-quoted")
	} else {
		verifCover("C17.quote-plain")
	}
}

// FQDNDomain is idempotent and only ever appends one dot.
func harness_C17_fqdn() {
	n := verifParam("n", 3)
	s := nondetString("s", n)
	f := FQDNDomain(s)
	if FQDNDomain(f) != f {
		verifFail("C17.fqdn-idempotent")
	}
	if f != s && f != s+"." {
		verifFail("C17.fqdn-shape")
	}
	verifCover("C17.fqdn-end")
}

// crash-freedom of the byte-level helpers over all strings of length n.
// (A Go panic anywhere below is reported by the engine as a violation.)
func harness_C17_nopanic() {
	n := verifParam("n", 3)
	s := nondetString("s", n)
	switch nondetChoice("fn", 5) {
	case 0:
		Split(s)
	case 1:
		QuoteMbox(s)
	case 2:
		UnquoteMbox(s)
	case 3:
		ValidMailboxName(s)
	case 4:
		IsASCII(s)
		FQDNDomain(s)
	}
	verifCover("C17.nopanic-end")
}

// ---- (b) ForLookup as an uninterpreted function ----

type ufEntry struct {
	arg string
	key string
}

var ufTable []ufEntry

// stubForLookup models ForLookup as an arbitrary *function*: a fresh result
// for every call, constrained to agree with every earlier call on an equal
// argument (Ackermann's reduction, performed by the harness).
//
//verif:stub github.com/foxcpp/maddy/framework/address.ForLookup @harness_C17_equal_uf
func stubForLookup(addr string) (string, error) {
	k := len(ufTable)
	l := nondetChoice("uf.len", 3)
	key := nondetString("uf.key", l)
	for i := 0; i < k; i++ {
		if ufTable[i].arg == addr {
			verifAssume(ufTable[i].key == key)
		}
	}
	ufTable = append(ufTable, ufEntry{addr, key})
	return key, nil
}

func harness_C17_equal_uf() {
	ufTable = nil
	la, lb, lc := verifParam("la", 1), verifParam("lb", 1), verifParam("lc", 1)
	a, b, c := nondetString("a", la), nondetString("b", lb), nondetString("c", lc)
	if !Equal(a, a) {
		verifFail("C17.equal-reflexive")
	}
	ab, ba := Equal(a, b), Equal(b, a)
	if ab != ba {
		verifFail("C17.equal-symmetric")
	}
	bc, ac := Equal(b, c), Equal(a, c)
	if ab && bc && !ac {
		verifFail("C17.equal-transitive")
	}
	ka, _ := ForLookup(a)
	kb, _ := ForLookup(b)
	if ab != (ka == kb) {
		verifFail("C17.equal-iff-same-key")
	}
	if ab && a != b {
		verifCover("C17.equal-distinct-strings-equal")
	}
	if !ab {
		verifCover("C17.equal-false")
	}
}

// ---- (c) finite alphabet, concretised ----

var c17Alphabet = [][]string{
	// variants of one address: case, NFC/NFD, A-label/U-label
	{"user@example.org", "USER@EXAMPLE.ORG", "User@Example.Org"},
	{"é@example.org", "é@example.org", "É@EXAMPLE.ORG"},
	{"test@тест.example.org", "test@xn--e1aybc.example.org", "TEST@ТЕСТ.example.org", "test@XN--E1AYBC.example.org"},
	{"straße@example.org", "STRASSE@example.org"}, // NOT equivalent under simple lower-casing; only idempotence is asserted
	{"x@bücher.example", "x@xn--bcher-kva.example", "x@bücher.example"},
	{"postmaster", "POSTMASTER"},
	// NFC / NFD spellings of a letter whose lower-casing is special (U+0130 vs I + U+0307)
	{"\u0130stanbul@example.org", "I\u0307stanbul@example.org"},
	// A-labels that are not the first label, and CleanDomain staying inside the class
	{"u@mail.тест.org", "u@mail.xn--e1aybc.org", "U@MAIL.XN--E1AYBC.ORG", "u@Mail.ТЕСТ.org"},
	{"u@bücher.тест", "u@xn--bcher-kva.xn--e1aybc", "u@bücher.xn--e1aybc"},
	{"σς@example.org"},
	{"ｆｕｌｌ@example.org"},
	{"i̇@example.org", "İ@example.org"},
}

func harness_C17_alphabet() {
	g := nondetChoice("group", len(c17Alphabet))
	grp := c17Alphabet[g]
	i := nondetChoice("i", len(grp))
	j := nondetChoice("j", len(grp))
	a, b := grp[i], grp[j]
	ka, err := ForLookup(a)
	if err != nil {
		verifFail("C17.alphabet-forlookup-error")
	}
	kka, err := ForLookup(ka)
	if err != nil || kka != ka {
		verifFail("C17.forlookup-idempotent")
	}
	ca, err := CleanDomain(a)
	if err != nil {
		verifFail("C17.alphabet-cleandomain-error")
	}
	cca, err := CleanDomain(ca)
	if err != nil || cca != ca {
		verifFail("C17.cleandomain-idempotent")
	}
	// cleaning the domain does not leave the equivalence class
	if kc, _ := ForLookup(ca); kc != ka {
		verifFail("C17.cleandomain-leaves-class")
	}
	kb, _ := ForLookup(b)
	if g != 3 && g != 11 {
		if ka != kb {
			verifFail("C17.variants-one-key")
		}
		if !Equal(a, b) {
			verifFail("C17.variants-equal")
		}
	}
	if Equal(a, b) != (ka == kb) {
		verifFail("C17.equal-iff-same-key-real")
	}
	// ASCII/Unicode conversion round-trips on the lookup key
	as, err := ToASCII(ka)
	if err == nil {
		un, err := ToUnicode(as)
		if err != nil {
			verifFail("C17.tounicode-error")
		}
		k2, _ := ForLookup(un)
		if k2 != ka {
			verifFail("C17.ascii-unicode-roundtrip")
		}
		verifCover("C17.alphabet-roundtrip")
	}
	verifCover("C17.alphabet-end")
}

// ---- (d) comparison against lookup keys across the whole alphabet ----

// letters that Unicode simple case folding identifies but lower-casing keeps
// apart (final sigma, long s, Kelvin sign, ...), next to their partners
var c17FoldTraps = []string{
	"σ@example.org", "ς@example.org", "Σ@example.org", "Σ@example.org.",
	"s@example.org", "ſ@example.org", "S@EXAMPLE.ORG",
	"k@example.org", "K@example.org",
	"ß@example.org", "ẞ@example.org", "ss@example.org",
	"θ@example.org", "ϑ@example.org",
	"u@σ.example", "u@ς.example",
}

func init() { verifRegister("harness_C17_pairs", harness_C17_pairs) }

// Equal(a, b) must coincide with equality of the lookup keys for every pair of
// the alphabet (not only inside one class), and be transitive through a third.
func harness_C17_pairs() {
	var all []string
	for _, g := range c17Alphabet {
		all = append(all, g...)
	}
	all = append(all, c17FoldTraps...)
	a := all[nondetChoice("a", len(all))]
	b := all[nondetChoice("b", len(all))]
	ka, errA := ForLookup(a)
	kb, errB := ForLookup(b)
	eq := Equal(a, b)
	if errA == nil && errB == nil {
		if eq != (ka == kb) {
			verifFail("C17.equal-iff-same-key-pairs")
		}
	} else if eq && a != b {
		verifFail("C17.equal-despite-invalid")
	}
	if eq != Equal(b, a) {
		verifFail("C17.equal-symmetric-pairs")
	}
	if verifParam("third", 1) == 1 {
		c := c17FoldTraps[nondetChoice("c", len(c17FoldTraps))]
		if eq && Equal(b, c) && !Equal(a, c) {
			verifFail("C17.equal-transitive-pairs")
		}
	}
	verifCover("C17.pairs-end")
}
