package queue

import (
	"fmt"

	"github.com/emersion/go-message/textproto"
	"github.com/foxcpp/maddy/framework/buffer"
	"github.com/foxcpp/maddy/framework/module"
)

func init() { verifRegister("harness_C02_crash", harness_C02_crash) }

// c02Recover starts a fresh queue on the surviving spool and lets it attempt
// every loaded entry once against the given target. It returns the queue.
func c02Recover(dir string, tgt, bounce module.DeliveryTarget, maxTries int) *Queue {
	w := &c01Wheel{}
	q := c01Queue(dir, tgt, bounce, maxTries, w)
	if err := q.readDiskQueue(); err != nil {
		verifFail("C02.recovery-scan-failed")
	}
	// entries handed to the scheduler by recovery
	var ids []string
	q.wheel.slotsLock.Lock()
	for e := q.wheel.slots.Front(); e != nil; e = e.Next() {
		ids = append(ids, e.Value.(TimeSlot).Value.(queueSlot).ID)
	}
	q.wheel.slotsLock.Unlock()
	for _, s := range w.dispatched {
		ids = append(ids, s.Value.(queueSlot).ID)
	}
	for _, id := range ids {
		meta, hdr, body, err := q.openMessage(id)
		if err != nil {
			continue // dispatch logs and gives up on this entry
		}
		q.tryDelivery(meta, hdr, body)
	}
	return q
}

// A crash at any file-system operation of acceptance, of the first attempt, of
// a retry, of failure reporting or clean-up; then a restart.
func harness_C02_crash() {
	n := verifParam("rcpts", 2)
	attempts := verifParam("attempts", 2)
	strong := verifParam("strong", 0) == 1
	fsReset()
	scriptNoVariants, scriptClasses, scriptMsgSym = true, 3, 0
	dir := qDir()
	rcpts := c01Rcpts[:n]
	maxTries := 3
	tgt := &scriptTarget{name: "tgt", partial: verifParam("partial", 1) == 1}
	bounce := &scriptTarget{name: "bounce", faultFree: true}
	w := &c01Wheel{}
	q := c01Queue(dir, tgt, bounce, maxTries, w)
	sender := "sender@example.net"

	// crash point: index of the mutating file-system operation, symbolic
	fsm.crashAt = nondetInt("crashAt", 0, verifParam("maxops", 60))
	fsm.torn = nondetBool("torn")

	accepted, aborted := false, false
	attemptsStarted := 0
	committedIn := map[string]int{} // recipient -> attempt in which the target committed it
	crashed := verifCatchCrash(func() {
		mm := &module.MsgMetadata{ID: "msg1", OriginalFrom: sender}
		d, err := q.Start(nil, mm, sender)
		if err != nil {
			verifStop()
		}
		for _, r := range rcpts {
			d.AddRcpt(nil, r, smtpRcptOptions{})
		}
		hdr := textproto.Header{}
		hdr.Add("Subject", "c02")
		bodyBytes := []byte("body\r\n")
		if verifParam("emptybody", 0) == 1 && nondetBool("emptyBody") {
			bodyBytes = []byte{} // a message that consists of a header only
		}
		if err := d.Body(nil, hdr, buffer.MemoryBuffer{Slice: bodyBytes}); err != nil {
			verifStop()
		}
		if nondetBool("abortInstead") {
			d.Abort(nil)
			aborted = true
			return
		}
		if err := d.Commit(nil); err != nil {
			verifStop()
		}
		accepted = true
		for k := 1; k <= attempts; k++ {
			meta, hdr, body, err := q.openMessage("msg1")
			if err != nil {
				return // fully processed
			}
			attemptsStarted = k
			q.tryDelivery(meta, hdr, body)
			for _, r := range rcpts {
				if tgt.committedCount(r) > 0 && committedIn[r] == 0 {
					committedIn[r] = k
				}
			}
		}
	})
	// commits that happened in the attempt the crash interrupted
	for _, r := range rcpts {
		if tgt.committedCount(r) > 0 && committedIn[r] == 0 {
			committedIn[r] = len(tgt.deliveries)
		}
	}
	if !crashed {
		// no crash within the bound: the process is stopped in an orderly way after
		// the last operation (a stop is a restart point like any other)
		verifCover("C02.no-crash-within-bound")
		if verifParam("stop", 1) == 0 {
			return
		}
	}
	attemptsBegun := len(tgt.deliveries)
	_ = attemptsStarted

	// ---- what survives ----
	if strong && crashed {
		// every file's not-yet-fsynced content may be lost
		for name, f := range fsm.files {
			if !f.synced && nondetBool("lost."+name) {
				f.data = append([]byte(nil), f.syncedData...)
				f.meta = f.syncedMeta
				f.partial = false
				if !f.everSynced {
					f.data, f.meta = nil, nil
				}
			}
		}
	}
	fsm.crashAt = -1
	fsm.torn = false
	if verifParam("depth", 1) >= 2 {
		fsm.crashAt = fsm.ops + nondetInt("crashAt2", 0, verifParam("maxops2", 25))
	}
	durable := (*QueueMetadata)(nil)
	{
		saved := fsm.crashAt
		fsm.crashAt = -1
		q0 := c01Queue(dir, tgt, nil, maxTries, &c01Wheel{})
		durable = qReadMeta(q0, "msg1")
		fsm.crashAt = saved
	}

	// ---- restart ----
	// post = 1: the first attempt after the restart meets per-recipient
	// failures again and a second attempt follows (no further crash)
	post := verifParam("post", 0) == 1
	rec := &scriptTarget{name: "rec", faultFree: !post, onlyStatusFaults: post, partial: true}
	bounce2 := &scriptTarget{name: "bounce2", faultFree: true}
	crashed2 := verifCatchCrash(func() { c02Recover(dir, rec, bounce2, maxTries) })
	if crashed2 {
		// depth 2: the recovery run itself crashed; restart once more
		fsm.crashAt = -1
		rec2 := &scriptTarget{name: "rec2", faultFree: true, partial: true}
		c02Recover(dir, rec2, bounce2, maxTries)
		rec.deliveries = append(rec.deliveries, rec2.deliveries...)
		verifCover("C02.crash-during-recovery")
	}
	var rec3 *scriptTarget
	if post && !crashed2 {
		rec3 = &scriptTarget{name: "rec3", faultFree: true, partial: true}
		q3 := c01Queue(dir, rec3, bounce2, maxTries, &c01Wheel{})
		if meta, hdr, body, err := q3.openMessage("msg1"); err == nil {
			q3.tryDelivery(meta, hdr, body)
			verifCover("C02.second-attempt-after-restart")
		}
		for _, r := range rcpts {
			if rec.committedCount(r) > 0 {
				for _, d := range rec3.deliveries {
					if contains(d.offered, r) {
						verifLog("rcpt", r, "committed by the first attempt after the restart and offered again by the second")
						verifFail("C02.resent-after-later-attempt-began")
					}
				}
			}
		}
	}
	attemptedNow := func(r string) bool {
		if rec3 != nil {
			for _, d := range rec3.deliveries {
				if contains(d.offered, r) {
					return true
				}
			}
		}
		for _, d := range rec.deliveries {
			if contains(d.offered, r) {
				return true
			}
		}
		return false
	}

	// ---- oracle ----
	for _, r := range rcpts {
		now := attemptedNow(r)
		doneBefore := tgt.committedCount(r) > 0
		reportedBefore := bounce.reportsNaming(r) > 0 || bounce2.reportsNaming(r) > 0
		verifLog("rcpt", r, "accepted", accepted, "aborted", aborted, "doneBefore", doneBefore, "reportedBefore", reportedBefore, "now", now, "begun", attemptsBegun)
		if accepted && !doneBefore && !reportedBefore && !now {
			verifFail("C02.accepted-recipient-lost")
		}
		if aborted && now {
			verifFail("C02.aborted-message-delivered")
		}
		if now && (durable == nil || !contains(durable.To, r)) {
			verifFail("C02.delivered-to-non-pending-address")
		}
		if now && committedIn[r] > 0 && committedIn[r] < attemptsBegun {
			// a later attempt had begun: the queue had durably recorded r as done
			verifFail("C02.resent-after-later-attempt-began")
		}
		if now && doneBefore {
			verifCover("C02.duplicate-after-crash-in-same-attempt")
		}
	}
	for _, d := range rec.deliveries {
		for _, r := range d.offered {
			if !contains(rcpts, r) {
				verifFail("C02.delivered-to-foreign-address")
			}
		}
	}
	if accepted {
		verifCover("C02.crash-after-accept")
	} else {
		verifCover("C02.crash-during-accept")
	}
	verifCover("C02.end")
	_ = fmt.Sprint
}
