package msgpipeline

import (
	"context"
	"errors"
	"fmt"

	"github.com/emersion/go-message/textproto"
	"github.com/emersion/go-smtp"
	"github.com/foxcpp/maddy/framework/buffer"
	modconfig "github.com/foxcpp/maddy/framework/config/module"
	"github.com/foxcpp/maddy/framework/log"
	"github.com/foxcpp/maddy/framework/module"
)

func init() { verifRegister("harness_C06_checks", harness_C06_checks) }

const (
	vNone = iota
	vIgnore
	vQuarantine
	vReject
)

const (
	stConn = iota
	stSender
	stRcpt
	stBody
)

// scripted check: logs every stage call; the verdict of each stage is a
// symbolic value applied through the real FailAction.Apply
type c06Check struct {
	name    string
	verdict [4]int
	states  []*c06State
}

type c06State struct {
	c      *c06Check
	conn   int
	sender int
	rcpt   map[string]int
	body   int
	closed int
}

func (c *c06Check) CheckStateForMsg(ctx context.Context, m *module.MsgMetadata) (module.CheckState, error) {
	s := &c06State{c: c, rcpt: map[string]int{}}
	c.states = append(c.states, s)
	return s, nil
}

func (s *c06State) result(stage int) module.CheckResult {
	v := s.c.verdict[stage]
	if v == vNone {
		return module.CheckResult{}
	}
	res := module.CheckResult{Reason: errors.New(s.c.name + ": policy violation")}
	switch v {
	case vIgnore:
		return modconfig.FailAction{}.Apply(res)
	case vQuarantine:
		return modconfig.FailAction{Quarantine: true}.Apply(res)
	}
	return modconfig.FailAction{Reject: true}.Apply(res)
}

func (s *c06State) CheckConnection(ctx context.Context) module.CheckResult {
	s.conn++
	return s.result(stConn)
}
func (s *c06State) CheckSender(ctx context.Context, from string) module.CheckResult {
	s.sender++
	return s.result(stSender)
}
func (s *c06State) CheckRcpt(ctx context.Context, to string) module.CheckResult {
	s.rcpt[to]++
	return s.result(stRcpt)
}
func (s *c06State) CheckBody(ctx context.Context, h textproto.Header, b buffer.Buffer) module.CheckResult {
	s.body++
	return s.result(stBody)
}
func (s *c06State) Close() error { s.closed++; return nil }

// recording target (atomic or per-recipient)
type c06Target struct {
	name       string
	partial    bool
	bodies     int
	quarantine []bool
	committed  int
	aborted    int
	rcpts      []string
}
type c06Delivery struct {
	t *c06Target
	m *module.MsgMetadata
}
type c06Partial struct{ *c06Delivery }

func (t *c06Target) Start(ctx context.Context, m *module.MsgMetadata, from string) (module.Delivery, error) {
	d := &c06Delivery{t, m}
	if t.partial {
		return c06Partial{d}, nil
	}
	return d, nil
}
func (d *c06Delivery) AddRcpt(ctx context.Context, to string, o smtp.RcptOptions) error {
	d.t.rcpts = append(d.t.rcpts, to)
	return nil
}
func (d *c06Delivery) Body(ctx context.Context, h textproto.Header, b buffer.Buffer) error {
	d.t.bodies++
	d.t.quarantine = append(d.t.quarantine, d.m.Quarantine)
	return nil
}
func (p c06Partial) BodyNonAtomic(ctx context.Context, sc module.StatusCollector, h textproto.Header, b buffer.Buffer) {
	p.t.bodies++
	p.t.quarantine = append(p.t.quarantine, p.m.Quarantine)
	for _, r := range p.t.rcpts {
		sc.SetStatus(r, nil)
	}
}
func (d *c06Delivery) Commit(ctx context.Context) error { d.t.committed++; return nil }
func (d *c06Delivery) Abort(ctx context.Context) error  { d.t.aborted++; return nil }

type c06Statuses struct {
	errs map[string]error
	n    map[string]int
}

func (c *c06Statuses) SetStatus(r string, err error) {
	c.n[r]++
	if err != nil {
		c.errs[r] = err
	}
}

type c06Outcome struct {
	startErr  bool
	rcptErr   [2]bool
	bodyErr   bool // SMTP: Body failed; LMTP: every recipient got a failure status
	delivered [2]bool
	quar      [2]bool // quarantine flag seen by the target of recipient i
	checks    []*c06Check
}

// placement shapes of checks A and B over the blocks of the pipeline
//
//	0: A global
//	1: A global, B source
//	2: A global, B destination block of r1
//	3: A in global + source + destination block of r1 (same instance)
//	4: A destination block of r1, B destination block of r2
//	5: A and B global; 6: A and B in the destination block of r1
var c06PreQuarantined bool
var c06LastRcpts []string // the recipient strings of the last run, as sent

func c06Run(shape int, lmtp bool, vA, vB [4]int) c06Outcome {
	// same = 1: the second recipient is routed to the destination block of the
	// first; 2: it is the first recipient repeated verbatim; 3: it is a case
	// variant of the first recipient (same block, another string)
	sameMode := verifParam("same", 0)
	same := sameMode >= 1
	A := &c06Check{name: "A", verdict: vA}
	B := &c06Check{name: "B", verdict: vB}
	t1 := &c06Target{name: "t1", partial: lmtp}
	t2 := &c06Target{name: "t2", partial: lmtp}
	b1 := &rcptBlock{targets: []module.DeliveryTarget{t1}}
	b2 := &rcptBlock{targets: []module.DeliveryTarget{t2}}
	cfg := msgpipelineCfg{perSource: map[string]sourceBlock{}}
	src := sourceBlock{perRcpt: map[string]*rcptBlock{"r1@example.org": b1, "r2@example.org": b2, "r1b@example.org": b1},
		defaultRcpt: &rcptBlock{rejectErr: errors.New("no route")}}
	switch shape {
	case 0:
		cfg.globalChecks = []module.Check{A}
	case 1:
		cfg.globalChecks = []module.Check{A}
		src.checks = []module.Check{B}
	case 2:
		cfg.globalChecks = []module.Check{A}
		b1.checks = []module.Check{B}
	case 3:
		cfg.globalChecks = []module.Check{A}
		src.checks = []module.Check{A}
		b1.checks = []module.Check{A}
	case 4:
		b1.checks = []module.Check{A}
		b2.checks = []module.Check{B}
	case 5: // two checks in the same (global) block
		cfg.globalChecks = []module.Check{A, B}
	case 6: // two checks in the same destination block
		b1.checks = []module.Check{A, B}
	}
	cfg.defaultSource = src
	d := MsgPipeline{msgpipelineCfg: cfg, Log: log.Logger{}, Hostname: "mx.example.org"}
	out := c06Outcome{checks: []*c06Check{A, B}}
	ctx := context.Background()
	// the message may arrive flagged already (an outer pipeline, a queue re-injecting it)
	meta := &module.MsgMetadata{ID: "c06", OriginalFrom: "sender@example.net", Quarantine: c06PreQuarantined}
	dl, err := d.Start(ctx, meta, "sender@example.net")
	if err != nil {
		out.startErr = true
		return out
	}
	rcpts := []string{"r1@example.org", "r2@example.org"}
	if same {
		rcpts[1] = "r1b@example.org"
		if sameMode == 2 {
			rcpts[1] = "r1@example.org"
		} else if sameMode == 3 {
			rcpts[1] = "R1@example.org"
		}
	}
	c06LastRcpts = rcpts
	any := false
	for i, r := range rcpts {
		if err := dl.AddRcpt(ctx, r, smtp.RcptOptions{}); err != nil {
			out.rcptErr[i] = true
		} else {
			any = true
		}
	}
	if !any {
		dl.Abort(ctx)
		return out
	}
	hdr := textproto.Header{}
	hdr.Add("Subject", "c06")
	body := buffer.MemoryBuffer{Slice: []byte("body\r\n")}
	if lmtp {
		st := &c06Statuses{errs: map[string]error{}, n: map[string]int{}}
		dl.(module.PartialDelivery).BodyNonAtomic(ctx, st, hdr, body)
		allFailed := true
		for i, r := range rcpts {
			if !out.rcptErr[i] && st.errs[r] == nil {
				allFailed = false
			}
		}
		out.bodyErr = allFailed
	} else {
		if err := dl.Body(ctx, hdr, body); err != nil {
			out.bodyErr = true
		}
	}
	if out.bodyErr {
		dl.Abort(ctx)
	} else {
		dl.Commit(ctx)
	}
	tgts := []*c06Target{t1, t2}
	if same {
		tgts[1] = t1
	}
	for i, t := range tgts {
		out.delivered[i] = t.committed > 0 && t.bodies > 0
		for _, q := range t.quarantine {
			if q {
				out.quar[i] = true
			}
		}
	}
	return out
}

func harness_C06_checks() {
	shape := verifParam("shape", 0)
	var vA, vB [4]int
	only := verifParam("stage", -1) // -1: the verdicts of all stages are symbolic; k: only stage k
	for s := 0; s < 4; s++ {
		if only >= 0 && s != only {
			continue
		}
		vA[s] = nondetInt(fmt.Sprintf("A.stage%d", s), 0, 3)
		vB[s] = nondetInt(fmt.Sprintf("B.stage%d", s), 0, 3)
	}
	lmtp := verifParam("lmtp", 0) == 1
	c06PreQuarantined = nondetBool("flaggedOnEntry")
	out := c06Run(shape, lmtp, vA, vB)

	// ---- which checks apply where ----
	usesB := shape == 1 || shape == 2 || shape >= 4
	aGlobal := shape <= 3 || shape == 5
	// verdicts applicable to the connection/sender stage (global + source scope)
	var early [][4]int
	if aGlobal {
		early = append(early, vA)
	}
	if shape == 1 || shape == 5 {
		early = append(early, vB)
	}
	// per recipient (index 0: r1, 1: r2): verdict vectors of the checks in scope
	scope := [2][][4]int{}
	for i := 0; i < 2; i++ {
		scope[i] = append(scope[i], early...)
	}
	switch shape {
	case 2:
		scope[0] = append(scope[0], vB)
	case 4:
		scope[0] = append(scope[0], vA)
		scope[1] = append(scope[1], vB)
	case 6:
		scope[0] = append(scope[0], vA, vB)
	}
	if verifParam("same", 0) >= 1 {
		scope[1] = scope[0]
	}
	has := func(vs [][4]int, stage, verdict int) bool {
		r := false
		for _, v := range vs {
			r = verifOr(r, v[stage] == verdict)
		}
		return r
	}
	earlyReject := verifOr(has(early, stConn, vReject), has(early, stSender, vReject))
	// destination-scoped checks see connection and sender when their block is first used
	if out.startErr != earlyReject {
		if out.startErr {
			verifFail("C06.refused-without-rejecting-verdict")
		}
		verifFail("C06.reject-at-connection-or-sender-not-enforced")
	}
	if out.startErr {
		verifCover("C06.start-rejected")
		for _, c := range out.checks {
			_ = c
		}
		return
	}
	for i := 0; i < 2; i++ {
		// a destination-scoped check replays connection/sender for its block and checks the recipient
		want := verifOr(has(scope[i], stRcpt, vReject), verifOr(has(scope[i][len(early):], stConn, vReject), has(scope[i][len(early):], stSender, vReject)))
		if out.rcptErr[i] != want {
			if out.rcptErr[i] {
				verifFail("C06.recipient-refused-without-rejecting-verdict")
			}
			verifFail("C06.reject-at-recipient-not-enforced")
		}
	}
	if out.rcptErr[0] && out.rcptErr[1] {
		verifCover("C06.all-recipients-rejected")
		return
	}
	// body stage: checks in scope of the message = global, source, blocks of accepted recipients
	var bodyScope [][4]int
	bodyScope = append(bodyScope, early...)
	for i := 0; i < 2; i++ {
		if !out.rcptErr[i] {
			bodyScope = append(bodyScope, scope[i][len(early):]...)
		}
	}
	bodyReject := has(bodyScope, stBody, vReject)
	if out.bodyErr != bodyReject {
		if out.bodyErr {
			verifFail("C06.message-refused-without-rejecting-verdict")
		}
		verifFail("C06.reject-at-body-not-enforced")
	}
	anyQuarantine := false
	for st := 0; st < 4; st++ {
		anyQuarantine = verifOr(anyQuarantine, has(bodyScope, st, vQuarantine))
	}
	// a quarantine verdict actually issued by any executed stage call (also of
	// a check whose recipient was refused afterwards)
	issuedQuarantine := false
	for _, c := range out.checks {
		for _, s := range c.states {
			calls := [4]int{s.conn, s.sender, len(s.rcpt), s.body}
			for st := 0; st < 4; st++ {
				if calls[st] > 0 && c.verdict[st] == vQuarantine {
					issuedQuarantine = true
				}
			}
		}
	}
	for i := 0; i < 2; i++ {
		if out.rcptErr[i] {
			if out.delivered[i] {
				verifFail("C06.delivered-despite-recipient-reject")
			}
			continue
		}
		if bodyReject {
			if out.delivered[i] {
				verifFail("C06.delivered-despite-reject")
			}
			continue
		}
		if !out.delivered[i] {
			verifFail("C06.accepted-but-not-delivered")
		}
		if (anyQuarantine || c06PreQuarantined) && !out.quar[i] {
			verifFail("C06.quarantine-not-seen-by-target")
		}
		if !issuedQuarantine && !c06PreQuarantined && out.quar[i] {
			verifFail("C06.quarantined-without-verdict")
		}
	}
	// every stage seen at most once per check instance and message, and exactly
	// once for every stage the message reached in the check's scope
	inBodyScope := map[string]bool{}
	switch shape {
	case 0:
		inBodyScope["A"] = true
	case 1:
		inBodyScope["A"], inBodyScope["B"] = true, true
	case 2:
		inBodyScope["A"], inBodyScope["B"] = true, !out.rcptErr[0]
	case 3:
		inBodyScope["A"] = true
	case 4:
		inBodyScope["A"], inBodyScope["B"] = !out.rcptErr[0], !out.rcptErr[1]
	case 5:
		inBodyScope["A"], inBodyScope["B"] = true, true
	case 6:
		inBodyScope["A"], inBodyScope["B"] = !out.rcptErr[0], !out.rcptErr[0]
	}
	for _, c := range out.checks {
		if c.name == "B" && !usesB {
			continue
		}
		if len(c.states) > 1 {
			verifFail("C06.check-state-created-twice")
		}
		for _, s := range c.states {
			if s.conn != 1 {
				verifLog("check", c.name, "conn", s.conn)
				verifFail("C06.connection-stage-not-exactly-once")
			}
			connRejected := c.verdict[stConn] == vReject
			if shape >= 5 && (vA[stConn] == vReject || vB[stConn] == vReject) {
				connRejected = true // a co-located check refused at the connection stage
			}
			if s.sender > 1 || (s.sender == 0 && !connRejected) {
				verifLog("check", c.name, "sender", s.sender)
				verifFail("C06.sender-stage-not-exactly-once")
			}
			// a global check is the first thing every RCPT command meets: it sees
			// every recipient string the client sent, exactly once
			if shape == 0 && c.name == "A" {
				for _, r := range c06LastRcpts {
					if s.rcpt[r] != 1 {
						verifLog("check A saw recipient", r, s.rcpt[r], "times")
						verifFail("C06.recipient-not-shown-to-check")
					}
				}
			}
			for r, n := range s.rcpt {
				if n != 1 {
					verifLog("check", c.name, "rcpt", r, "calls", n)
					verifFail("C06.recipient-stage-not-exactly-once")
				}
			}
			if s.body > 1 {
				verifLog("check", c.name, "body calls", s.body)
				verifFail("C06.body-stage-more-than-once")
			}
			if s.body == 0 && inBodyScope[c.name] && !bodyReject {
				verifLog("check", c.name, "never saw the body")
				verifFail("C06.body-stage-not-seen")
			}
		}
	}
	if anyQuarantine {
		verifCover("C06.quarantined")
	}
	if bodyReject {
		verifCover("C06.body-rejected")
	}
	verifCover("C06.end")
}
