package queue

import (
	"fmt"
	"sync"
	"time"

	"github.com/emersion/go-message/textproto"
	"github.com/foxcpp/maddy/framework/buffer"
	"github.com/foxcpp/maddy/framework/module"
)

// c12Delay maps a small symbolic choice to a duration without a symbolic
// multiplication (no back end here decides 64-bit bvmul by 10^9 in time).
func c12Delay(name string, max int) time.Duration {
	k := nondetInt(name, 0, max)
	d := 0
	for i := max; i >= 1; i-- {
		d = verifIte(k >= i, i*int(time.Second)-(i-1)*int(time.Second)+d, d)
	}
	return time.Duration(d)
}

func init() {
	verifRegister("harness_C12_wheel", harness_C12_wheel)
	verifRegister("harness_C12_wheel_close", harness_C12_wheel_close)
	verifRegister("harness_C12_queue_close", harness_C12_queue_close)
}

// Scheduler alone, no shutdown: concurrent producers with symbolic times; every
// entry is dispatched exactly once and not before its time. (A lost entry
// shows up as a deadlock of the harness, a duplicate as an assertion.)
func harness_C12_wheel() {
	np := verifParam("producers", 2)
	type rec struct {
		slot TimeSlot
		at   time.Time
	}
	doneCh := make(chan rec, 8)
	tw := NewTimeWheel(func(s TimeSlot) { doneCh <- rec{s, time.Now()} })
	base := time.Now()
	var wg sync.WaitGroup
	for i := 0; i < np; i++ {
		wg.Add(1)
		d := c12Delay(fmt.Sprintf("delay%d", i), 3)
		go func(i int, d time.Duration) {
			defer wg.Done()
			tw.Add(base.Add(d), i+1)
		}(i, d)
	}
	seen := map[int]int{}
	for k := 0; k < np; k++ {
		r := <-doneCh
		v := r.slot.Value.(int)
		seen[v]++
		if seen[v] > 1 {
			verifFail("C12.dispatched-twice")
		}
		if r.at.Before(r.slot.Time) {
			verifFail("C12.dispatched-before-its-time")
		}
	}
	wg.Wait()
	// nothing is dispatched a second time afterwards
	time.Sleep(10 * time.Second)
	select {
	case <-doneCh:
		verifFail("C12.dispatched-twice")
	default:
	}
	tw.Close()
	verifCover("C12.wheel-end")
}

// Scheduler with one shutdown racing the producers: Add and Close return, no
// goroutine panics, nothing is dispatched twice.
func harness_C12_wheel_close() {
	np := verifParam("producers", 1)
	count := map[int]int{}
	var mu sync.Mutex
	tw := NewTimeWheel(func(s TimeSlot) {
		mu.Lock()
		count[s.Value.(int)]++
		mu.Unlock()
	})
	base := time.Now()
	var wg sync.WaitGroup
	for i := 0; i < np; i++ {
		wg.Add(1)
		d := c12Delay(fmt.Sprintf("delay%d", i), 2)
		go func(i int, d time.Duration) {
			defer wg.Done()
			tw.Add(base.Add(d), i+1)
		}(i, d)
	}
	wg.Add(1)
	go func() {
		defer wg.Done()
		tw.Close()
	}()
	wg.Wait() // a producer or the closer blocked forever is reported as a deadlock
	for v, n := range count {
		if n > 1 {
			verifLog("value", v, "dispatched", n)
			verifFail("C12.dispatched-twice")
		}
	}
	verifCover("C12.wheel-close-end")
}

// Queue shutdown racing an in-flight attempt that re-queues its message: the
// attempt's goroutine must not crash (its panic handler marks the spool entry
// as broken), Close returns, and the spool entry stays intact for a restart.
func harness_C12_queue_close() {
	fsReset()
	dontRecover = false // production behaviour: the dispatch goroutine recovers panics and marks the entry broken
	scriptNoVariants, scriptClasses, scriptMsgSym = true, 3, 0
	dir := qDir()
	tgt := &scriptTarget{name: "tgt", partial: true, faultFree: verifParam("msgs", 1) >= 2}
	q := &Queue{name: "q", location: dir, hostname: "mx.example.org", autogenMsgDomain: "example.org",
		initialRetryTime: 1, retryTimeScale: 1.25, maxTries: 3, Target: tgt}
	if err := q.start(1); err != nil {
		verifFail("C12.start-failed")
	}
	mm := &module.MsgMetadata{ID: "msg1", OriginalFrom: "sender@example.net"}
	d, err := q.Start(nil, mm, "sender@example.net")
	if err != nil {
		verifStop()
	}
	d.AddRcpt(nil, "a@example.org", smtpRcptOptions{})
	hdr := textproto.Header{}
	hdr.Add("Subject", "c12")
	if err := d.Body(nil, hdr, buffer.MemoryBuffer{Slice: []byte("body\r\n")}); err != nil {
		verifStop()
	}
	if err := d.Commit(nil); err != nil {
		verifStop()
	}
	if verifParam("msgs", 1) >= 2 {
		// a second message: with max_parallelism 1 its attempt waits for the first one
		mm2 := &module.MsgMetadata{ID: "msg2", OriginalFrom: "sender@example.net"}
		d2, err := q.Start(nil, mm2, "sender@example.net")
		if err != nil {
			verifStop()
		}
		d2.AddRcpt(nil, "b@example.org", smtpRcptOptions{})
		if err := d2.Body(nil, hdr, buffer.MemoryBuffer{Slice: []byte("body\r\n")}); err != nil {
			verifStop()
		}
		if err := d2.Commit(nil); err != nil {
			verifStop()
		}
	}
	// the wheel dispatches the entries (time zero = immediately), the attempts run
	// in their own goroutines; shut down concurrently
	q.Close()
	// once Close has returned nothing of the queue is running any more
	attemptsAtClose, openAtClose := len(tgt.deliveries), tgt.openDeliveries()
	verifQuiesce()
	if openAtClose != 0 {
		verifFail("C12.attempt-still-running-after-shutdown")
	}
	if len(tgt.deliveries) != attemptsAtClose {
		verifLog("attempts when Close returned", attemptsAtClose, "later", len(tgt.deliveries))
		verifFail("C12.attempt-started-after-shutdown")
	}

	if verifPanics() > 0 {
		verifFail("C12.goroutine-panicked-during-shutdown")
	}
	if qExists(q, "msg1", ".meta_broken") {
		verifFail("C12.spool-entry-marked-broken")
	}
	delivered := tgt.committedCount("a@example.org") > 0
	terminal := delivered
	for _, dl := range tgt.deliveries {
		if _, perm := dl.faults("a@example.org"); perm {
			terminal = true
		}
	}
	if len(tgt.deliveries) >= 3 {
		terminal = true // max_tries exhausted
	}
	if !terminal && !qExists(q, "msg1", ".meta") {
		verifFail("C12.removed-without-terminal-outcome")
	}
	if !terminal {
		verifCover("C12.still-spooled-after-shutdown")
	}
	if len(tgt.deliveries) > 0 && !delivered {
		verifCover("C12.attempt-failed-during-shutdown")
	}
	verifCover("C12.queue-close-end")
}
