package queue

import (
	"bufio"
	"bytes"

	"github.com/emersion/go-message/textproto"
	"github.com/foxcpp/maddy/framework/buffer"
	"github.com/foxcpp/maddy/framework/module"
)

func init() { verifRegister("harness_C10_spool", harness_C10_spool) }

func c10HeaderBytes(h textproto.Header) []byte {
	var b bytes.Buffer
	if err := textproto.WriteHeader(&b, h); err != nil {
		verifFail("C10.header-not-writable")
	}
	return b.Bytes()
}

// What the queue hands to the downstream target equals what it accepted:
// header and body bytes, sender, pending recipients, SMTPUTF8 / REQUIRETLS /
// TLS-Required override, original-recipient mapping - on the first attempt, on
// a retry and after a restart; and no credential reaches the spool.
func harness_C10_spool() {
	n := verifParam("hdrbytes", 5)
	nb := verifParam("bodybytes", 2)
	fsReset()
	scriptNoVariants, scriptClasses, scriptMsgSym = true, 2, 0
	dir := qDir()
	// ---- the message as the SMTP endpoint accepts it: arbitrary bytes parsed by the real header parser ----
	raw := append(nondetBytes("hdr", n), []byte("\r\n\r\n")...)
	// bighdr = K: one concrete header of about K KiB (a long folded field between
	// two short ones), served from the spool after a restart; everything else fixed
	big := verifParam("bighdr", 0)
	if big > 0 {
		raw = c10BigHeader(big)
	}
	hdr, err := textproto.ReadHeader(bufio.NewReader(bytes.NewReader(raw)))
	if err != nil {
		verifCover("C10.header-rejected-by-parser")
		verifStop()
	}
	if hdr.Len() == 0 && !nondetBool("allowEmptyHeader") {
		verifCover("C10.empty-header")
	}
	body := nondetBytes("body", nb)
	accepted := c10HeaderBytes(hdr)

	sender := "sender@example.net"
	if big == 0 && nondetBool("nullSender") {
		sender = ""
	}
	mm := &module.MsgMetadata{ID: "msg1", OriginalFrom: sender, OriginalRcpts: map[string]string{"a@example.org": "orig@example.com"}}
	if big == 0 {
		mm.SMTPOpts.UTF8 = nondetBool("utf8")
		mm.SMTPOpts.RequireTLS = nondetBool("requiretls")
		mm.TLSRequireOverride = nondetBool("tlsoverride")
	}
	mm.Conn = &module.ConnState{Hostname: "client.example.net", AuthUser: "secret-user", AuthPassword: "secret-password"}

	tgt := &scriptTarget{name: "tgt", partial: true, onlyStatusFaults: true, faultFree: verifParam("faults", 1) == 0}
	w := &c01Wheel{}
	q := c01Queue(dir, tgt, nil, 3, w)
	firstWheel := q.wheel
	d, err := q.Start(nil, mm, sender)
	if err != nil {
		verifStop()
	}
	rcpts := []string{"a@example.org", "b@example.org"}
	for _, r := range rcpts {
		d.AddRcpt(nil, r, smtpRcptOptions{})
	}
	if err := d.Body(nil, hdr, buffer.MemoryBuffer{Slice: body}); err != nil {
		verifStop()
	}
	if err := d.Commit(nil); err != nil {
		verifStop()
	}
	// ---- no credential in the spool (checked after acceptance and after every attempt) ----
	scanSpool := func() {
		if verifSymbolic() {
			for name, f := range fsm.files {
				if f.meta != nil && f.meta.MsgMeta != nil && f.meta.MsgMeta.Conn != nil {
					if f.meta.MsgMeta.Conn.AuthPassword != "" || f.meta.MsgMeta.Conn.AuthUser != "" {
						verifLog("file", name)
						verifFail("C10.credentials-in-spool")
					}
				}
				if bytes.Contains(f.data, []byte("secret-")) {
					verifFail("C10.credentials-in-spool")
				}
			}
		} else {
			c10NativeScanSpool(dir)
		}
	}
	scanSpool()
	// ---- attempts ----
	attempts := 1
	if big == 0 && nondetBool("retry") {
		attempts = 2
	}
	pending := rcpts
	for k := 1; k <= attempts; k++ {
		if big > 0 || nondetBool("restart") {
			q = c01Queue(dir, tgt, nil, 3, &c01Wheel{})
		}
		// the first attempt in the accepting process works on the in-memory
		// metadata of the scheduled slot, exactly as Queue.dispatch does
		var meta *QueueMetadata
		var h2 textproto.Header
		var b2 buffer.Buffer
		if slot := c10Slot(q, w); k == 1 && slot != nil && slot.Meta != nil && q.wheel == firstWheel {
			meta, h2, b2 = slot.Meta, *slot.Hdr, slot.Body
			verifCover("C10.first-attempt-from-memory")
		} else {
			var err error
			meta, h2, b2, err = q.openMessage("msg1")
			if err != nil {
				verifFail("C10.spooled-message-unreadable")
			}
		}
		before := len(tgt.deliveries)
		q.tryDelivery(meta, h2, b2)
		if len(tgt.deliveries) != before+1 {
			verifFail("C10.no-attempt")
		}
		dl := tgt.deliveries[before]
		if dl.closed != "start-failed" {
			// envelope
			if dl.from != sender {
				verifFail("C10.sender-changed")
			}
			if len(dl.offered) != len(pending) {
				verifFail("C10.pending-recipients-changed")
			}
			for _, r := range pending {
				if !contains(dl.offered, r) {
					verifFail("C10.pending-recipients-changed")
				}
			}
			if dl.meta.SMTPOpts.UTF8 != mm.SMTPOpts.UTF8 || dl.meta.SMTPOpts.RequireTLS != mm.SMTPOpts.RequireTLS || dl.meta.TLSRequireOverride != mm.TLSRequireOverride {
				verifFail("C10.envelope-options-changed")
			}
			if dl.meta.OriginalRcpts["a@example.org"] != "orig@example.com" {
				verifFail("C10.original-recipient-mapping-lost")
			}
			if dl.meta.OriginalFrom != sender {
				verifFail("C10.original-sender-changed")
			}
			if dl.bodyDone {
				if !bytes.Equal(c10HeaderBytes(dl.header), accepted) {
					verifFail("C10.header-bytes-changed")
				}
				if !bytes.Equal(dl.body, body) {
					verifFail("C10.body-bytes-changed")
				}
				verifCover("C10.content-compared")
			}
		}
		scanSpool()
		// next pending set: exactly the recipients whose own status in this
		// attempt was a temporary or unclassified failure (computed from the
		// scripted statuses, not read back from the spool)
		var next []string
		if dl.closed != "start-failed" {
			for _, r := range pending {
				if c := dl.statFault[r]; c == fTemp || c == fUnspec {
					next = append(next, r)
				}
			}
		} else {
			next = pending
		}
		durable := qReadMeta(q, "msg1")
		if durable == nil {
			if len(next) != 0 && k < 3 {
				verifFail("C10.pending-recipients-dropped")
			}
			break
		}
		pending = next
	}
	verifCover("C10.end")
}

func c10BigHeader(kib int) []byte {
	var b bytes.Buffer
	b.WriteString("Subject: first\r\nX-Long: start")
	line := make([]byte, 0, 80)
	line = append(line, "\r\n "...)
	for i := 0; i < 61; i++ {
		line = append(line, byte('a'+i%26))
	}
	for b.Len() < kib*1024 {
		b.Write(line)
	}
	b.WriteString("\r\nX-After: last\r\n\r\n")
	return b.Bytes()
}

// c10Slot returns the scheduled entry of msg1 (waiting in the wheel or already dispatched).
func c10Slot(q *Queue, w *c01Wheel) *queueSlot {
	for _, s := range w.dispatched {
		if qs := s.Value.(queueSlot); qs.ID == "msg1" {
			return &qs
		}
	}
	q.wheel.slotsLock.Lock()
	defer q.wheel.slotsLock.Unlock()
	for e := q.wheel.slots.Front(); e != nil; e = e.Next() {
		if qs := e.Value.(TimeSlot).Value.(queueSlot); qs.ID == "msg1" {
			return &qs
		}
	}
	return nil
}
