package queue

import (
	"bytes"
	"os"
	"path/filepath"
)

// native replay: scan the real spool directory for the credential markers
func c10NativeScanSpool(dir string) {
	ents, _ := os.ReadDir(dir)
	for _, e := range ents {
		b, err := os.ReadFile(filepath.Join(dir, e.Name()))
		if err == nil && bytes.Contains(b, []byte("secret-")) {
			verifFail("C10.credentials-in-spool")
		}
	}
}
