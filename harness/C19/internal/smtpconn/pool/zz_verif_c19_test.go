package pool

import (
	"context"
	"fmt"
	"sync"
	"time"
)

func init() { verifRegister("harness_C19_pool", harness_C19_pool) }

type c19Conn struct {
	id       int
	closes   int
	owner    int // 0: nobody
	usable   bool
	lastUse  time.Time
	pooled   bool // returned to the pool (and the call returned) before shutdown began
	handouts int
}

// Usable probes the connection (an SMTP round trip for the real mxConn): time passes.
func (c *c19Conn) Usable() bool {
	time.Now()
	return c.usable
}
func (c *c19Conn) LastUseAt() time.Time { return c.lastUse }
func (c *c19Conn) Close() error {
	c.closes++
	return nil
}

// Concurrent get/use/return workers, one expiry sweep and one shutdown.
func harness_C19_pool() {
	workers := verifParam("workers", 2)
	cycles := verifParam("cycles", 1)
	nkeys := verifParam("keys", 1)
	withClose := verifParam("close", 1) == 1
	const lifetime = 5
	var all []*c19Conn
	closing, closed := false, false
	p := New(Config{
		New: func(ctx context.Context, key string) (Conn, error) {
			c := &c19Conn{id: len(all) + 1, usable: true, lastUse: time.Now()}
			all = append(all, c)
			return c, nil
		},
		MaxKeys:             2,
		MaxConnsPerKey:      verifParam("perkey", 1),
		MaxConnLifetimeSec:  lifetime,
		StaleKeyLifetimeSec: 10,
	})
	ctx := context.Background()
	var wg sync.WaitGroup
	for w := 1; w <= workers; w++ {
		wg.Add(1)
		go func(w int) {
			defer wg.Done()
			for k := 0; k < cycles; k++ {
				key := "mx1.example.org"
				if nkeys > 1 && nondetBool(fmt.Sprintf("key.%d.%d", w, k)) {
					key = "mx2.example.org"
				}
				startedAfterClose := closed
				created := len(all)
				t0 := time.Now()
				ci, err := p.Get(ctx, key)
				if err != nil || ci == nil {
					verifFail("C19.get-failed")
				}
				c := ci.(*c19Conn)
				fresh := c.id > created
				if c.closes > 0 {
					verifFail("C19.handed-out-after-close")
				}
				if c.owner != 0 {
					verifFail("C19.two-owners")
				}
				if !fresh && !c.usable {
					verifFail("C19.handed-out-unusable")
				}
				if !fresh && c.lastUse.Add(lifetime*time.Second).Before(t0) {
					verifFail("C19.handed-out-after-idle-lifetime")
				}
				// ... also when the lifetime ended while Get was running (probing an
				// earlier connection, waiting for the lock): the instant of the
				// pool's own last clock reading is the current one, no time has
				// passed since
				if !fresh && verifSymbolic() && c.lastUse.Add(lifetime*time.Second).Before(verifClock()) {
					verifFail("C19.handed-out-after-idle-lifetime")
				}
				if !fresh && startedAfterClose {
					verifFail("C19.handed-out-after-shutdown")
				}
				if !fresh {
					verifCover("C19.reused")
				}
				c.owner = w
				c.handouts++
				c.pooled = false
				verifYield() // use the connection
				c.usable = nondetBool(fmt.Sprintf("usable.%d.%d", w, k))
				c.lastUse = time.Now()
				c.owner = 0
				beforeShutdown := !closing
				p.Return(key, c)
				if beforeShutdown && !closing {
					c.pooled = true
				}
			}
		}(w)
	}
	if verifParam("sweep", 1) == 1 {
		wg.Add(1)
		go func() {
			defer wg.Done()
			p.CleanUp(ctx)
		}()
	}
	if withClose {
		wg.Add(1)
		go func() {
			defer wg.Done()
			closing = true
			p.Close()
			closed = true
		}()
	}
	wg.Wait()
	if !withClose {
		closing = true
		p.Close()
		closed = true
	}
	verifQuiesce() // let the asynchronous Close calls finish
	for _, c := range all {
		if c.closes > 1 {
			verifFail("C19.closed-twice")
		}
		if c.pooled && c.owner == 0 && c.closes != 1 {
			verifLog("conn", c.id, "closes", c.closes, "handouts", c.handouts)
			verifFail("C19.pooled-connection-never-closed")
		}
	}
	verifCover("C19.end")
}
