package pool

import (
	"context"
	"sync"
	"time"
)

func init() { verifRegister("harness_C19_full_bucket", harness_C19_full_bucket) }

// A Return that finds the bucket full racing a Get that takes the pooled
// connection: both finish, nobody blocks, every connection is owned by
// exactly one party or closed once.
func harness_C19_full_bucket() {
	p := New(Config{MaxKeys: 2, MaxConnsPerKey: 1, MaxConnLifetimeSec: 5, StaleKeyLifetimeSec: 10})
	key := "mx1.example.org"
	c1 := &c19Conn{id: 1, usable: true, lastUse: time.Now()}
	c2 := &c19Conn{id: 2, usable: nondetBool("usable2"), lastUse: time.Now()}
	p.Return(key, c1)
	var got Conn
	var wg sync.WaitGroup
	wg.Add(2)
	go func() {
		defer wg.Done()
		got, _ = p.Get(context.Background(), key)
	}()
	go func() {
		defer wg.Done()
		p.Return(key, c2)
	}()
	wg.Wait()
	p.Close()
	verifQuiesce()
	for _, c := range []*c19Conn{c1, c2} {
		handed := got == Conn(c)
		if handed && c.closes > 0 {
			verifFail("C19.handed-out-after-close")
		}
		if !handed && c.closes != 1 {
			verifLog("connection", c.id, "closes", c.closes)
			verifFail("C19.connection-leaked-or-closed-twice")
		}
	}
	verifCover("C19.full-bucket-end")
}
