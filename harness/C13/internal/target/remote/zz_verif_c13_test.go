package remote

import (
	"crypto/ecdsa"
	"crypto/elliptic"
	"crypto/rand"
	"crypto/tls"
	"crypto/x509"
	"crypto/x509/pkix"
	"encoding/pem"
	"errors"
	"fmt"
	"math/big"
	"os"
	"path/filepath"
	"time"

	mdns "github.com/miekg/dns"
)

func init() { verifRegister("harness_C13_verifyDANE", harness_C13_verifyDANE) }

// Model of the presented chain: logical chain leaf(0) <- intermediate(1) <- root(2);
// the server presents a prefix of it. Facts are symbolic.
var c13 struct {
	certs       []*x509.Certificate // presented certificates
	isCA        [3]bool
	expiredLeaf bool
	nameOK      bool
	pools       map[*x509.CertPool][]*x509.Certificate
	// the host's system trust store contains the root of the logical chain
	// (what a nil VerifyOptions.Roots falls back to)
	systemTrustsRoot bool
	nchain           int
}

var c13Names = [4]string{"00", "01", "02", "ff"} // association data designating cert 0,1,2 or nothing

func c13Index(c *x509.Certificate) int {
	for i, x := range c13.certs {
		if x == c {
			return i
		}
	}
	return -1
}

// Contract of TLSA.Verify: nil iff selector and matching type are defined and
// the association data is the one computed from this certificate.
//
//verif:stub (*github.com/miekg/dns.TLSA).Verify
func stubTLSAVerify(r *mdns.TLSA, cert *x509.Certificate) error {
	if r.Selector > 1 || r.MatchingType > 2 {
		return errors.New("dane: unsupported selector or matching type")
	}
	i := c13Index(cert)
	if i >= 0 && r.Certificate == c13Names[i] {
		return nil
	}
	return errors.New("dane: no match")
}

//verif:stub crypto/x509.NewCertPool
func stubNewCertPool() *x509.CertPool { return new(x509.CertPool) }

//verif:stub (*crypto/x509.CertPool).AddCert
func stubAddCert(p *x509.CertPool, c *x509.Certificate) {
	if c13.pools == nil {
		c13.pools = map[*x509.CertPool][]*x509.Certificate{}
	}
	c13.pools[p] = append(c13.pools[p], c)
}

func c13In(p *x509.CertPool, c *x509.Certificate) bool {
	for _, x := range c13.pools[p] {
		if x == c {
			return true
		}
	}
	return false
}

// Contract of Certificate.Verify (documented behaviour of crypto/x509): the
// leaf must be within its validity period and match DNSName, and a path
// leaf -> ... -> k must exist where k is in Roots, every certificate strictly
// between is in Intermediates or Roots, and every certificate above the leaf
// is a CA.
//
//verif:stub (*crypto/x509.Certificate).Verify
func stubCertVerify(c *x509.Certificate, opts x509.VerifyOptions) ([][]*x509.Certificate, error) {
	if c13Index(c) != 0 {
		return nil, errors.New("x509: (model) Verify called on a certificate that is not the leaf")
	}
	if opts.Roots == nil {
		// documented behaviour: the system roots are used. The logical root
		// (certificate 2) is in the system store or not; a path to it needs the
		// intermediate (certificate 1) among the presented certificates.
		haveInter := false
		if len(c13.certs) >= 2 {
			haveInter = c13In(opts.Intermediates, c13.certs[1])
		}
		ok := verifAnd(c13.systemTrustsRoot, verifAnd(haveInter, verifAnd(c13.isCA[1], c13.isCA[2])))
		ok = verifAnd(ok, verifAnd(!c13.expiredLeaf, c13.nameOK))
		if ok {
			return [][]*x509.Certificate{c13.certs}, nil
		}
		return nil, errors.New("x509: certificate signed by unknown authority")
	}
	// written without short-circuit operators so that the model is one formula
	valid := false
	for k := 0; k < len(c13.certs); k++ {
		ok := c13In(opts.Roots, c13.certs[k])
		for j := 1; j <= k; j++ {
			ok = verifAnd(ok, c13.isCA[j])
			if j < k && !c13In(opts.Intermediates, c13.certs[j]) && !c13In(opts.Roots, c13.certs[j]) {
				ok = false
			}
		}
		valid = verifOr(valid, ok)
	}
	valid = verifAnd(valid, verifAnd(!c13.expiredLeaf, c13.nameOK))
	if valid {
		return [][]*x509.Certificate{c13.certs}, nil
	}
	return nil, errors.New("x509: certificate signed by unknown authority")
}

// Contract of Certificate.CheckSignatureFrom (documented): nil iff the
// signature on c was made by parent's key and parent may sign certificates.
// In the logical chain certificate i is signed by certificate i+1 (the root by itself).
//
//verif:stub (*crypto/x509.Certificate).CheckSignatureFrom
func stubCheckSignatureFrom(c, parent *x509.Certificate) error {
	i, j := c13Index(c), c13Index(parent)
	if i < 0 || j < 0 || !(j == i+1 || (i == 2 && j == 2)) {
		return errors.New("x509: (model) signature is not by this certificate")
	}
	if !c13.isCA[j] {
		return x509.ConstraintViolationError{}
	}
	return nil
}

// Contract of Certificate.VerifyHostname (documented): nil iff the name is one
// the certificate is valid for; only the leaf carries the MX host name.
//
//verif:stub (*crypto/x509.Certificate).VerifyHostname
func stubVerifyHostname(c *x509.Certificate, h string) error {
	if c13Index(c) == 0 && h == c13MX && c13.nameOK {
		return nil
	}
	return x509.HostnameError{Certificate: c, Host: h}
}

const c13MX = "mx.example.org"

var c13Root *x509.Certificate // the logical root of the last real chain

// c13InstallSystemRoots points the process's system trust store (loaded lazily,
// once) at a bundle that contains the logical root iff the model says so.
func c13InstallSystemRoots() {
	dir, err := os.MkdirTemp("", "c13-roots")
	if err != nil {
		panic(err)
	}
	bundle := filepath.Join(dir, "roots.pem")
	var pemBytes []byte
	if c13.systemTrustsRoot && c13Root != nil {
		pemBytes = pem.EncodeToMemory(&pem.Block{Type: "CERTIFICATE", Bytes: c13Root.Raw})
	}
	if err := os.WriteFile(bundle, pemBytes, 0o600); err != nil {
		panic(err)
	}
	empty := filepath.Join(dir, "empty")
	os.Mkdir(empty, 0o700)
	os.Setenv("SSL_CERT_FILE", bundle)
	os.Setenv("SSL_CERT_DIR", empty)
}

// c13RealChain builds real certificates with the modelled properties (native replay only).
func c13RealChain(n int) []*x509.Certificate {
	var certs []*x509.Certificate
	var keys []*ecdsa.PrivateKey
	for i := 0; i < 3; i++ {
		k, err := ecdsa.GenerateKey(elliptic.P256(), rand.Reader)
		if err != nil {
			panic(err)
		}
		keys = append(keys, k)
	}
	// build from the root down
	tmpl := func(i int) *x509.Certificate {
		t := &x509.Certificate{
			SerialNumber:          big.NewInt(int64(100 + i)),
			Subject:               pkix.Name{CommonName: fmt.Sprintf("c13 cert %d", i)},
			NotBefore:             time.Now().Add(-48 * time.Hour),
			NotAfter:              time.Now().Add(48 * time.Hour),
			BasicConstraintsValid: true,
			IsCA:                  c13.isCA[i],
			KeyUsage:              x509.KeyUsageDigitalSignature | x509.KeyUsageCertSign,
		}
		if i == 0 {
			if c13.nameOK {
				t.DNSNames = []string{c13MX}
			} else {
				t.DNSNames = []string{"other.example.org"}
			}
			if c13.expiredLeaf {
				t.NotAfter = time.Now().Add(-24 * time.Hour)
			}
		}
		return t
	}
	parsed := make([]*x509.Certificate, 3)
	for i := 2; i >= 0; i-- {
		t := tmpl(i)
		parent, pkey := t, keys[i]
		if i < 2 {
			parent, pkey = parsed[i+1], keys[i+1]
		}
		der, err := x509.CreateCertificate(rand.Reader, t, parent, &keys[i].PublicKey, pkey)
		if err != nil {
			panic(err)
		}
		c, err := x509.ParseCertificate(der)
		if err != nil {
			panic(err)
		}
		parsed[i] = c
	}
	for i := 0; i < n; i++ {
		certs = append(certs, parsed[i])
	}
	c13Root = parsed[2]
	return certs
}

func harness_C13_verifyDANE() {
	nrec := verifParam("nrec", 2)
	nchain := nondetInt("chain", 1, 3) // certificates presented
	nchain = verifConcretize(nchain)
	handshake := nondetBool("handshake")
	c13.pools = nil
	c13.systemTrustsRoot = nondetBool("systemTrustsRoot")
	c13.nchain = nchain
	c13.expiredLeaf = nondetBool("expiredLeaf")
	c13.nameOK = nondetBool("nameOK")
	for i := 0; i < 3; i++ {
		c13.isCA[i] = nondetBool(fmt.Sprintf("isCA%d", i))
	}
	if verifSymbolic() {
		c13.certs = nil
		for i := 0; i < nchain; i++ {
			c13.certs = append(c13.certs, &x509.Certificate{IsCA: c13.isCA[i]})
		}
	} else {
		c13.certs = c13RealChain(nchain)
		c13InstallSystemRoots()
	}

	type recModel struct {
		usage, sel, mt int
		target         int // 0..2 certificate index, 3 = nothing
	}
	var models []recModel
	var recs []mdns.TLSA
	var unrelated *x509.Certificate
	for i := 0; i < nrec; i++ {
		m := recModel{
			usage:  nondetInt(fmt.Sprintf("usage%d", i), 0, 4),
			sel:    nondetInt(fmt.Sprintf("sel%d", i), 0, 2),
			mt:     nondetInt(fmt.Sprintf("mt%d", i), 0, 3),
			target: nondetInt(fmt.Sprintf("target%d", i), 0, 3),
		}
		if verifParam("restrict", 0) == 1 {
			// reduced shape: only defined selectors / matching types (usage stays free)
			verifAssume(m.sel <= 1)
			verifAssume(m.mt <= 2)
		}
		models = append(models, m)
		rec := mdns.TLSA{Usage: uint8(m.usage), Selector: uint8(m.sel), MatchingType: uint8(m.mt)}
		if verifSymbolic() {
			// association data as one symbolic choice without forking
			data := c13Names[3]
			if m.target == 0 {
				data = c13Names[0]
			} else if m.target == 1 {
				data = c13Names[1]
			} else if m.target == 2 {
				data = c13Names[2]
			}
			rec.Certificate = data
		} else {
			var of *x509.Certificate
			if m.target < len(c13.certs) {
				of = c13.certs[m.target]
			} else {
				if unrelated == nil {
					saved := c13.isCA
					unrelated = c13RealChain(3)[2]
					c13.isCA = saved
				}
				of = unrelated
			}
			if m.sel <= 1 && m.mt <= 2 {
				d, err := mdns.CertificateToDANE(uint8(m.sel), uint8(m.mt), of)
				if err != nil {
					panic(err)
				}
				rec.Certificate = d
			} else {
				rec.Certificate = "00"
			}
		}
		recs = append(recs, rec)
	}

	st := tls.ConnectionState{HandshakeComplete: handshake, ServerName: c13MX}
	if handshake {
		st.PeerCertificates = c13.certs
	}
	override, err := verifyDANE(recs, st)

	// ---- oracle: the statement, from the model facts alone (non-forking) ----
	anyUsable, eeMatch, taMatch := false, false, false
	leafOK := verifAnd(!c13.expiredLeaf, c13.nameOK)
	for _, m := range models {
		usable := verifAnd(verifAnd(verifOr(m.usage == 2, m.usage == 3), m.sel <= 1), m.mt <= 2)
		anyUsable = verifOr(anyUsable, usable)
		presented := m.target < nchain
		eeMatch = verifOr(eeMatch, verifAnd(verifAnd(usable, presented), verifAnd(m.usage == 3, m.target == 0)))
		// the leaf validly chains to certificate `target`: every certificate
		// above the leaf up to and including it is a CA, leaf unexpired, name ok
		chainOK := verifAnd(leafOK, verifOr(m.target == 0, verifAnd(c13.isCA[1], verifOr(m.target == 1, c13.isCA[2]))))
		targetCA := verifOr(verifOr(verifAnd(m.target == 0, c13.isCA[0]), verifAnd(m.target == 1, c13.isCA[1])), verifAnd(m.target == 2, c13.isCA[2]))
		taMatch = verifOr(taMatch, verifAnd(verifAnd(verifAnd(usable, presented), m.usage == 2), verifAnd(targetCA, chainOK)))
	}
	matched := verifOr(eeMatch, taMatch)
	wantAuth := verifAnd(handshake, matched)
	wantRefuse := verifOr(verifAnd(nrec > 0, !handshake), verifAnd(handshake, verifAnd(anyUsable, !matched)))

	gotAuth := override && err == nil
	gotRefuse := err != nil
	verifAssert(verifImplies(gotAuth, wantAuth), "C13.authenticated-without-match")
	verifAssert(verifImplies(wantAuth, gotAuth), "C13.match-not-authenticated")
	verifAssert(verifImplies(wantRefuse, gotRefuse), "C13.not-refused")
	verifAssert(verifImplies(gotRefuse, wantRefuse), "C13.refused-without-cause")
	verifCoverIf(verifAnd(wantAuth, eeMatch), "C13.ee-auth")
	verifCoverIf(verifAnd(wantAuth, taMatch), "C13.ta-auth")
	verifCoverIf(wantRefuse, "C13.refused")
	verifCoverIf(verifAnd(!wantAuth, !wantRefuse), "C13.neither")
}
