package parser

import (
	"bytes"
	"fmt"
	"io/fs"
	"os"
	"strings"
)

func init() {
	verifRegister("harness_C20_bytes", harness_C20_bytes)
	verifRegister("harness_C20_template", harness_C20_template)
	verifRegister("harness_C20_roundtrip", harness_C20_roundtrip)
	verifRegister("harness_C20_concrete", harness_C20_concrete)
}

// The process environment is empty in the model: nothing to substitute.
//
//verif:stub (*strings.Replacer).Replace
func stubReplace(r *strings.Replacer, s string) string { return s }

//verif:stub os.Environ
func stubEnviron() []string { return nil }

// Removal of unexpanded {env:...} placeholders is a regexp: identity unless
// the token contains the opening marker (then the path is outside the claim).
//
//verif:stub github.com/foxcpp/maddy/framework/cfgparser.removeUnexpandedEnvvars
func stubRemoveEnv(s string) string {
	if strings.Contains(s, "{env:") {
		verifCover("C20.outside-env-placeholder")
		verifStop()
	}
	return s
}

// In-string macro expansion is a regexp: outside the claim.
//
//verif:stub (*github.com/foxcpp/maddy/framework/cfgparser.parseContext).expandSingleValueMacro @!harness_C20_concrete
func stubExpandSingle(ctx *parseContext, arg string) (string, error) {
	verifCover("C20.outside-in-string-macro")
	verifStop()
	return arg, nil
}

// File imports: no file exists.
//
//verif:stub os.Open
func stubOpen(name string) (*os.File, error) {
	return nil, &fs.PathError{Op: "open", Path: name, Err: fs.ErrNotExist}
}

func c20Depth(nodes []Node) int {
	d := 0
	for _, n := range nodes {
		if x := 1 + c20Depth(n.Children); x > d {
			d = x
		}
	}
	return d
}

// well-formed directive name, stated independently of the implementation:
// non-empty, not starting with a digit, only letters, digits, '.', '-', '_'
// (ASCII classes are decided here; non-ASCII letters/digits are accepted as the
// documentation allows Unicode letters)
func c20ValidName(s string) bool {
	if len(s) == 0 {
		return false
	}
	if s[0] >= '0' && s[0] <= '9' {
		return false
	}
	for i := 0; i < len(s); i++ {
		c := s[i]
		switch {
		case c >= 'a' && c <= 'z', c >= 'A' && c <= 'Z', c >= '0' && c <= '9', c == '.', c == '-', c == '_':
		case c >= 0x80:
		default:
			return false
		}
	}
	return true
}

func c20CheckTree(nodes []Node, depth int) {
	// the parser bounds block nesting by 255 and the depth at which imports are
	// expanded by another 255
	if depth > 512 {
		verifFail("C20.nesting-unbounded")
	}
	for _, n := range nodes {
		if n.Macro {
			verifFail("C20.macro-left-unexpanded")
		}
		if n.Snippet {
			verifFail("C20.snippet-left-in-tree")
		}
		if n.Name == "import" {
			verifFail("C20.import-left-unexpanded")
		}
		if !c20ValidName(n.Name) {
			verifFail("C20.malformed-directive-name")
		}
		for _, a := range n.Args {
			if strings.HasPrefix(a, "$(") && strings.HasSuffix(a, ")") {
				verifFail("C20.macro-reference-left-unexpanded")
			}
		}
		c20CheckTree(n.Children, depth+1)
	}
}

// Every byte string of length n: parsing terminates without crashing and
// yields an error or a well-formed tree. (Termination = every loop stays
// within the engine's unwinding bounds; a crash = a Go panic.)
func harness_C20_bytes() {
	n := verifParam("n", 3)
	src := nondetBytes("src", n)
	nodes, err := Read(bytes.NewReader(src), "verif.conf")
	if err != nil {
		verifCover("C20.bytes-error")
		return
	}
	c20CheckTree(nodes, 1)
	if len(nodes) > 0 {
		verifCover("C20.bytes-tree")
	} else {
		verifCover("C20.bytes-empty")
	}
}

// Grammar templates with symbolic holes: block nesting, macro definition and
// use, snippet and import (incl. self and forward reference), quoted strings,
// continuation lines, comments.
var c20Templates = []string{
	"a ? {\n b ?\n}\n",
	"$(m) = ? x\na $(m) ?\n",
	"(s) {\n b ?\n}\na {\n import s\n ?\n}\n",
	"(s) {\n import ?\n}\nimport s\n",
	"a \"?\" ?\n",
	"a b \\\n ? c\n",
	"a ? # ? comment\nb\n",
	"a { ? }\n",
	"a {\n b { ? }\n}\n?\n",
	"import ?\n",
	// templates with an expected block structure (holes restricted to lower-case letters)
	"a { $(m) = ? }\nb\n",
	"a {\n c ? }\nb ?\n",
	"a \"?\\\n?\" x\nb ?\n",
	"a { b { ? } }\nc\n",
	// an import nested in a block of a snippet body
	"(t) {\n x ?\n}\n(s) {\n blk {\n  import t\n }\n}\na {\n import s\n ?\n}\n",
}

// names of the top-level directives a successful parse of the template must
// return (stated from the brace structure of the template text)
var c20TemplateTop = map[int][]string{
	10: {"a", "b"},
	11: {"a", "b"},
	12: {"a", "b"},
	13: {"a", "c"},
}

func harness_C20_template() {
	t := c20Templates[verifParam("template", 0)]
	holeLen := verifParam("hole", 1)
	wantTop, structural := c20TemplateTop[verifParam("template", 0)]
	var src []byte
	k := 0
	for i := 0; i < len(t); i++ {
		if t[i] == '?' {
			h := nondetBytes(fmt.Sprintf("hole%d", k), holeLen)
			if structural {
				for _, c := range h {
					verifAssume(c >= 'a' && c <= 'z')
				}
			}
			src = append(src, h...)
			k++
		} else {
			src = append(src, t[i])
		}
	}
	nodes, err := Read(bytes.NewReader(src), "verif.conf")
	if err != nil {
		verifCover("C20.template-error")
		return
	}
	c20CheckTree(nodes, 1)
	if structural {
		if len(nodes) != len(wantTop) {
			verifLog("source", string(src), "top-level nodes", len(nodes), "expected", len(wantTop))
			verifFail("C20.block-structure")
		}
		for i, n := range nodes {
			if n.Name != wantTop[i] {
				verifFail("C20.block-structure")
			}
		}
	}
	verifCover("C20.template-tree")
}

// canonical printer
func c20Print(b *bytes.Buffer, nodes []Node, indent int) {
	for _, n := range nodes {
		for i := 0; i < indent; i++ {
			b.WriteByte('\t')
		}
		b.WriteString(n.Name)
		for _, a := range n.Args {
			b.WriteString(" \"")
			b.WriteString(strings.ReplaceAll(a, "\"", "\\\""))
			b.WriteString("\"")
		}
		if n.Children != nil {
			b.WriteString(" {\n")
			c20Print(b, n.Children, indent+1)
			for i := 0; i < indent; i++ {
				b.WriteByte('\t')
			}
			b.WriteString("}")
		}
		b.WriteByte('\n')
	}
}

func c20Equal(a, b []Node) bool {
	if len(a) != len(b) || (a == nil) != (b == nil) {
		return false
	}
	for i := range a {
		if a[i].Name != b[i].Name || len(a[i].Args) != len(b[i].Args) {
			return false
		}
		for j := range a[i].Args {
			if a[i].Args[j] != b[i].Args[j] {
				return false
			}
		}
		if !c20Equal(a[i].Children, b[i].Children) {
			return false
		}
	}
	return true
}

// expressible in the quoted syntax: not a lone brace, no macro / environment
// marker, backslashes only where they survive literally
func c20Quotable(s string) bool {
	if s == "{" || s == "}" {
		return false
	}
	for i := 0; i < len(s); i++ {
		c := s[i]
		if c == '$' || c >= 0x80 || c == '\r' {
			return false
		}
		// the lexer un-escapes only \": a backslash survives literally unless it
		// precedes a quote, another backslash or the closing quote
		if c == '\\' && (i+1 == len(s) || s[i+1] == '"' || s[i+1] == '\\') {
			return false
		}
	}
	return !strings.Contains(s, "{env:")
}

// print(parse) round trip on trees of a fixed small shape whose argument
// bytes are symbolic.
func harness_C20_roundtrip() {
	alen := verifParam("arglen", 2)
	a1 := nondetString("arg1", alen)
	a2 := nondetString("arg2", alen)
	verifAssume(c20Quotable(a1))
	verifAssume(c20Quotable(a2))
	tree := []Node{
		{Name: "alpha", Args: []string{a1}, Children: []Node{{Name: "inner", Args: []string{a2, a1}}, {Name: "empty", Children: []Node{}}}},
		{Name: "beta.x-1", Args: []string{a2}},
	}
	var b bytes.Buffer
	c20Print(&b, tree, 0)
	nodes, err := Read(bytes.NewReader(b.Bytes()), "verif.conf")
	if err != nil {
		verifLog("printed", b.String())
		verifFail("C20.canonical-form-rejected")
	}
	if !c20Equal(nodes, tree) {
		verifLog("printed", b.String())
		verifFail("C20.roundtrip-differs")
	}
	verifCover("C20.roundtrip-end")
}

// Concrete regression inputs for the parts of the parser that are cut from the
// symbolic runs (regexp-driven in-string macro expansion): executed by the
// engine without symbolic content; a crash is a violation, an accepted tree
// must be well-formed.
var c20Concrete = []string{
	"$(foo) = $(undef)\ndir x$(foo)y\n",
	"$(foo) = 1\ndir x$(foo)y $(foo)\n",
	"$(foo) = 1 2\ndir x$(foo)y\n",
	"dir x$(undef)y\n",
	"$(a) = $(a)\ndir $(a) x$(a)\n",
}

// c20Chain: n snippets, each a tower of `levels` nested blocks with the import
// of the previous snippet at the bottom; the file imports the last one.
func c20Chain(n, levels int) string {
	var b strings.Builder
	for i := 0; i < n; i++ {
		fmt.Fprintf(&b, "(s%d) {\n", i)
		for l := 0; l < levels; l++ {
			b.WriteString("b {\n")
		}
		if i > 0 {
			fmt.Fprintf(&b, "import s%d\n", i-1)
		} else {
			b.WriteString("leaf x\n")
		}
		for l := 0; l < levels; l++ {
			b.WriteString("}\n")
		}
		b.WriteString("}\n")
	}
	fmt.Fprintf(&b, "import s%d\n", n-1)
	return b.String()
}

// Inputs in which every macro is declared with one value: references at the
// start, in the middle and at the end of an argument, in quoted strings, in
// block headers and in the values of other macros. The accepted tree contains
// no reference at all and every argument that had one contains the value.
var c20AllDeclared = []string{
	"$(host) = mx.example.org\ntls $(host)/privkey.pem\nlisten $(host):25\ngreeting \"$(host) ESMTP ready\"\nmid /etc/$(host)/x\nend postmaster@$(host)\nwhole $(host)\n",
	"$(host) = mx.example.org\n$(certs) = $(host)/certs\nuse $(certs)\nuse2 pre/$(certs)\n",
	"$(host) = mx.example.org\nblock $(host)/a x$(host) {\n inner $(host).x\n deeper {\n  leaf $(host)-y\n }\n}\n",
	"$(a) = mx.example.org\n$(b) = $(a)\ndir $(b)$(a) $(a)$(b)z\n",
}

func c20NoReference(nodes []Node) {
	for _, n := range nodes {
		for _, a := range n.Args {
			if strings.Contains(a, "$(") {
				verifLog("argument", a)
				verifFail("C20.macro-reference-left-unexpanded")
			}
			if !strings.Contains(a, "mx.example.org") {
				verifLog("argument", a)
				verifFail("C20.macro-value-missing")
			}
		}
		c20NoReference(n.Children)
	}
}

func harness_C20_concrete() {
	inputs := append([]string{}, c20Concrete...)
	inputs = append(inputs, c20Chain(2, 100), c20Chain(3, 200), c20Chain(4, 150))
	inputs = append(inputs, c20AllDeclared...)
	k := nondetChoice("input", len(inputs))
	nodes, err := Read(bytes.NewReader([]byte(inputs[k])), "verif.conf")
	if err != nil {
		if k >= len(inputs)-len(c20AllDeclared) {
			verifFail("C20.valid-configuration-refused")
		}
		verifCover("C20.concrete-error")
		return
	}
	c20CheckTree(nodes, 1)
	if k >= len(inputs)-len(c20AllDeclared) {
		c20NoReference(nodes)
		verifCover("C20.concrete-all-declared")
	}
	verifCover("C20.concrete-tree")
}
