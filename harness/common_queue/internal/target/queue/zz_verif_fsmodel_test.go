package queue

// File-system and codec model shared by the queue harnesses (C01, C02, C10,
// C12, C18). Under symgo the os / json symbols below are bound to this model
// by //verif:stub directives; natively (replay) the real file system is used
// on a temporary directory and none of this code runs except the helpers that
// are explicitly mode-aware.

import (
	"bufio"
	"context"
	"encoding/json"
	"errors"
	"fmt"
	"io"
	"io/fs"
	"os"
	"path/filepath"
	"strings"
	"time"

	"github.com/emersion/go-smtp"
	"github.com/foxcpp/maddy/framework/module"
)

type fsFile struct {
	data    []byte         // bytes written (header/body files)
	meta    *QueueMetadata // snapshot written by the JSON encoder (meta files)
	partial bool           // a crash tore the last write
	synced  bool           // content made durable by fsync
	// durable content as of the last fsync (strong crash variant)
	syncedData []byte
	syncedMeta *QueueMetadata
	everSynced bool
}

type fsHandle struct {
	name   string
	off    int
	closed bool
	write  bool
}

var fsm struct {
	files    map[string]*fsFile
	handles  map[*os.File]*fsHandle
	encoders map[*json.Encoder]*os.File
	decoders map[*json.Decoder]*os.File
	ops      int  // mutating operations so far (crash points)
	crashAt  int  // -1: never (may be symbolic)
	torn     bool // crash inside the write instead of before it
	crashed  bool
	oplog    []string
	faultAt  int // operation index at which an I/O error is injected (-1: never)
}

type fsCrash struct{}

func fsReset() {
	fsm.files = map[string]*fsFile{}
	fsm.handles = map[*os.File]*fsHandle{}
	fsm.encoders = map[*json.Encoder]*os.File{}
	fsm.decoders = map[*json.Decoder]*os.File{}
	fsm.ops = 0
	fsm.crashAt = -1
	fsm.faultAt = -1
	fsm.torn = false
	fsm.crashed = false
	fsm.oplog = nil
}

// fsPoint is called before every mutating operation: it is a crash point.
// It returns true when the operation must be torn (crash in the middle).
func fsPoint(what string) bool {
	k := fsm.ops
	fsm.ops++
	fsm.oplog = append(fsm.oplog, what)
	if k == fsm.crashAt {
		if fsm.torn {
			return true
		}
		fsm.crashed = true
		verifLog("CRASH before", what)
		verifCrash()
	}
	return false
}

func fsTear(what string) {
	fsm.crashed = true
	verifLog("CRASH inside", what)
	verifCrash()
}

func fsNotExist(op, name string) error {
	return &fs.PathError{Op: op, Path: name, Err: fs.ErrNotExist}
}

//verif:stub os.MkdirAll
func stubMkdirAll(path string, perm os.FileMode) error { return nil }

//verif:stub os.Create
func stubCreate(name string) (*os.File, error) {
	fsPoint("create " + filepath.Base(name))
	fsm.files[name] = &fsFile{}
	f := new(os.File)
	fsm.handles[f] = &fsHandle{name: name, write: true}
	return f, nil
}

// OpenFile: the flag combinations a spool writer can reasonably use; anything
// else is refused loudly rather than modelled wrongly.
//
//verif:stub os.OpenFile
func stubOpenFile(name string, flag int, perm os.FileMode) (*os.File, error) {
	acc := flag & (os.O_RDONLY | os.O_WRONLY | os.O_RDWR)
	rest := flag &^ (os.O_RDONLY | os.O_WRONLY | os.O_RDWR | os.O_SYNC)
	_, exists := fsm.files[name]
	switch {
	case acc == os.O_RDONLY && rest == 0:
		return stubOpen(name)
	case rest == os.O_CREATE|os.O_TRUNC:
		return stubCreate(name)
	case rest == os.O_CREATE|os.O_EXCL, rest == os.O_CREATE|os.O_EXCL|os.O_TRUNC:
		if exists {
			return nil, &fs.PathError{Op: "open", Path: name, Err: fs.ErrExist}
		}
		return stubCreate(name)
	case rest == os.O_TRUNC:
		if !exists {
			return nil, fsNotExist("open", name)
		}
		return stubCreate(name)
	case rest == os.O_CREATE|os.O_APPEND, rest == os.O_APPEND:
		if !exists {
			if rest&os.O_CREATE == 0 {
				return nil, fsNotExist("open", name)
			}
			return stubCreate(name)
		}
		f := new(os.File)
		fsm.handles[f] = &fsHandle{name: name, write: true}
		return f, nil
	}
	panic(fmt.Sprintf("file model: os.OpenFile flags %#x are not modelled", flag))
}

//verif:stub os.Open
func stubOpen(name string) (*os.File, error) {
	if _, ok := fsm.files[name]; !ok {
		return nil, fsNotExist("open", name)
	}
	f := new(os.File)
	fsm.handles[f] = &fsHandle{name: name}
	return f, nil
}

//verif:stub os.Remove
func stubRemove(name string) error {
	fsPoint("remove " + filepath.Base(name))
	if _, ok := fsm.files[name]; !ok {
		return fsNotExist("remove", name)
	}
	delete(fsm.files, name)
	return nil
}

//verif:stub os.Rename
func stubRename(oldp, newp string) error {
	fsPoint("rename " + filepath.Base(oldp) + " -> " + filepath.Base(newp))
	f, ok := fsm.files[oldp]
	if !ok {
		return fsNotExist("rename", oldp)
	}
	delete(fsm.files, oldp)
	fsm.files[newp] = f
	return nil
}

type fsInfo struct {
	name string
	size int64
}

func (i fsInfo) Name() string               { return i.name }
func (i fsInfo) Size() int64                { return i.size }
func (i fsInfo) Mode() fs.FileMode          { return 0o644 }
func (i fsInfo) ModTime() time.Time         { return time.Time{} }
func (i fsInfo) IsDir() bool                { return false }
func (i fsInfo) Sys() interface{}           { return nil }
func (i fsInfo) Type() fs.FileMode          { return 0 }
func (i fsInfo) Info() (fs.FileInfo, error) { return i, nil }

//verif:stub os.Stat
func stubStat(name string) (os.FileInfo, error) {
	f, ok := fsm.files[name]
	if !ok {
		return nil, fsNotExist("stat", name)
	}
	return fsInfo{filepath.Base(name), int64(len(f.data))}, nil
}

//verif:stub os.ReadDir
func stubReadDir(dir string) ([]os.DirEntry, error) {
	var names []string
	for n := range fsm.files {
		if filepath.Dir(n) == dir {
			names = append(names, filepath.Base(n))
		}
	}
	// deterministic (insertion) order is what the engine's maps give; sort for stability
	for i := 1; i < len(names); i++ {
		for j := i; j > 0 && names[j] < names[j-1]; j-- {
			names[j], names[j-1] = names[j-1], names[j]
		}
	}
	var out []os.DirEntry
	for _, n := range names {
		out = append(out, fsInfo{name: n})
	}
	return out, nil
}

//verif:stub (*os.File).Write
func stubFileWrite(f *os.File, b []byte) (int, error) {
	h := fsm.handles[f]
	if h == nil || h.closed {
		return 0, os.ErrClosed
	}
	file := fsm.files[h.name]
	if file == nil {
		// unlinked while open: writes go nowhere
		return len(b), nil
	}
	if fsPoint("write " + filepath.Base(h.name)) {
		// torn write: a prefix reaches the file
		file.data = append(file.data, b[:len(b)/2]...)
		file.partial = true
		fsTear("write " + filepath.Base(h.name))
	}
	file.data = append(file.data, b...)
	file.synced = false
	return len(b), nil
}

//verif:stub (*os.File).WriteString
func stubFileWriteString(f *os.File, s string) (int, error) { return stubFileWrite(f, []byte(s)) }

//verif:stub (*os.File).ReadFrom
func stubFileReadFrom(f *os.File, r io.Reader) (int64, error) {
	var total int64
	buf := make([]byte, 32)
	for {
		n, err := r.Read(buf)
		if n > 0 {
			if _, werr := stubFileWrite(f, buf[:n]); werr != nil {
				return total, werr
			}
			total += int64(n)
		}
		if err == io.EOF {
			return total, nil
		}
		if err != nil {
			return total, err
		}
	}
}

//verif:stub (*os.File).Read
func stubFileRead(f *os.File, b []byte) (int, error) {
	h := fsm.handles[f]
	if h == nil || h.closed {
		return 0, os.ErrClosed
	}
	file := fsm.files[h.name]
	if file == nil || h.off >= len(file.data) {
		return 0, io.EOF
	}
	n := copy(b, file.data[h.off:])
	h.off += n
	return n, nil
}

//verif:stub (*os.File).Sync
func stubFileSync(f *os.File) error {
	h := fsm.handles[f]
	if h == nil || h.closed {
		return os.ErrClosed
	}
	fsPoint("fsync " + filepath.Base(h.name))
	if file := fsm.files[h.name]; file != nil {
		file.synced = true
		file.everSynced = true
		file.syncedData = append([]byte(nil), file.data...)
		file.syncedMeta = file.meta
	}
	return nil
}

//verif:stub (*os.File).Close
func stubFileClose(f *os.File) error {
	h := fsm.handles[f]
	if h == nil {
		return os.ErrInvalid
	}
	if h.closed {
		return os.ErrClosed
	}
	h.closed = true
	return nil
}

// ---- JSON codec contract: Decode(Encode(v)) is a deep copy of v; incomplete input is an error ----

//verif:stub encoding/json.NewEncoder
func stubNewEncoder(w io.Writer) *json.Encoder {
	e := new(json.Encoder)
	if f, ok := w.(*os.File); ok {
		fsm.encoders[e] = f
	}
	return e
}

//verif:stub (*encoding/json.Encoder).Encode
func stubEncode(e *json.Encoder, v interface{}) error {
	f := fsm.encoders[e]
	h := fsm.handles[f]
	if h == nil || h.closed {
		return os.ErrClosed
	}
	var snap *QueueMetadata
	switch m := v.(type) {
	case QueueMetadata:
		snap = fsCopyMeta(&m)
	case *QueueMetadata:
		snap = fsCopyMeta(m)
	default:
		return errors.New("model: json encoder used for an unexpected type")
	}
	file := fsm.files[h.name]
	if fsPoint("write " + filepath.Base(h.name)) {
		if file != nil {
			file.meta = snap
			file.partial = true
		}
		fsTear("write " + filepath.Base(h.name))
	}
	if file != nil {
		file.meta = snap
		file.data = append(file.data, '{', '}', '\n')
		file.synced = false
	}
	return nil
}

//verif:stub encoding/json.NewDecoder
func stubNewDecoder(r io.Reader) *json.Decoder {
	d := new(json.Decoder)
	if f, ok := r.(*os.File); ok {
		fsm.decoders[d] = f
	}
	return d
}

//verif:stub (*encoding/json.Decoder).Decode
func stubDecode(d *json.Decoder, v interface{}) error {
	f := fsm.decoders[d]
	h := fsm.handles[f]
	if h == nil {
		return os.ErrInvalid
	}
	file := fsm.files[h.name]
	if file == nil || file.meta == nil {
		return io.EOF
	}
	if file.partial {
		return errors.New("unexpected end of JSON input")
	}
	out, ok := v.(*QueueMetadata)
	if !ok {
		return errors.New("model: json decoder used for an unexpected type")
	}
	*out = *fsCopyMeta(file.meta)
	return nil
}

// fsCopyMeta is the deep copy the JSON contract promises (exported fields of
// QueueMetadata; MsgMeta.Conn is dropped by the queue before encoding).
func fsCopyMeta(m *QueueMetadata) *QueueMetadata {
	c := *m
	if m.MsgMeta != nil {
		mm := *m.MsgMeta
		if m.MsgMeta.OriginalRcpts != nil {
			mm.OriginalRcpts = map[string]string{}
			for k, v := range m.MsgMeta.OriginalRcpts {
				mm.OriginalRcpts[k] = v
			}
		}
		c.MsgMeta = &mm
	}
	c.To = append([]string(nil), m.To...)
	c.FailedRcpts = append([]string(nil), m.FailedRcpts...)
	c.TemporaryFailedRcpts = append([]string(nil), m.TemporaryFailedRcpts...)
	if m.RcptErrs != nil {
		c.RcptErrs = map[string]*smtp.SMTPError{}
		for k, v := range m.RcptErrs {
			if v != nil {
				e := *v
				c.RcptErrs[k] = &e
			} else {
				c.RcptErrs[k] = nil
			}
		}
	}
	if m.TriesCount != nil {
		c.TriesCount = map[string]int{}
		for k, v := range m.TriesCount {
			c.TriesCount[k] = v
		}
	}
	// struct tags of the real declaration (fsJSONTags is regenerated from the
	// working tree by qmetagen): "-" drops the field, omitempty drops empty
	// values, which come back as the zero value
	drop := func(field string, empty bool) bool {
		tag := fsJSONTags[field]
		if tag == "-" {
			return true
		}
		return empty && strings.Contains(tag, ",omitempty")
	}
	if drop("MsgMeta", c.MsgMeta == nil) {
		c.MsgMeta = nil
	}
	if drop("From", c.From == "") {
		c.From = ""
	}
	if drop("To", len(c.To) == 0) {
		c.To = nil
	}
	if drop("FailedRcpts", len(c.FailedRcpts) == 0) {
		c.FailedRcpts = nil
	}
	if drop("TemporaryFailedRcpts", len(c.TemporaryFailedRcpts) == 0) {
		c.TemporaryFailedRcpts = nil
	}
	if drop("RcptErrs", len(c.RcptErrs) == 0) {
		c.RcptErrs = nil
	}
	if drop("TriesCount", len(c.TriesCount) == 0) {
		c.TriesCount = nil
	}
	for f, tag := range fsJSONTags {
		if name := strings.Split(tag, ",")[0]; name != "" && name != "-" && name != f {
			panic("file model: renamed JSON field " + f + " is not modelled")
		}
	}
	return &c
}

//verif:stub github.com/foxcpp/maddy/framework/module.GenerateMsgID
func stubGenerateMsgID() (string, error) { return "dsn0001", nil }

// ---- mode-aware helpers used by harnesses ----

// qDir returns the spool directory: a model path under symgo, a fresh
// temporary directory natively.
func qDir() string {
	if verifSymbolic() {
		return "/spool"
	}
	d, err := os.MkdirTemp("", "verif-queue-")
	if err != nil {
		panic(err)
	}
	return d
}

// qReadMeta returns the durable metadata of message id (nil if absent / unreadable).
func qReadMeta(q *Queue, id string) *QueueMetadata {
	m, err := q.readMessageMeta(id)
	if err != nil {
		return nil
	}
	return m
}

func qExists(q *Queue, id, ext string) bool {
	_, err := os.Stat(filepath.Join(q.location, id+ext))
	return err == nil
}

var _ = bufio.NewReader
var _ = context.Background
var _ = strings.Contains
var _ module.MsgMetadata
