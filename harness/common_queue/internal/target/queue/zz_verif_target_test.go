package queue

// Scripted delivery target: every stage outcome is drawn from nondet; the
// target monitors the Start (AddRcpt)* [Body|BodyNonAtomic] (Commit|Abort)
// typestate and keeps the ground truth (what was committed for whom).

import (
	"bytes"
	"context"
	"errors"
	"fmt"
	"io"
	"strings"

	"github.com/emersion/go-message/textproto"
	"github.com/emersion/go-smtp"
	"github.com/foxcpp/maddy/framework/buffer"
	"github.com/foxcpp/maddy/framework/exterrors"
	"github.com/foxcpp/maddy/framework/module"
)

const (
	fOK = iota
	fTemp
	fPerm
	fUnspec
)

// mkErr builds an error of the given class; the concrete representative is a
// second symbolic choice (SMTP-annotated vs. explicit marker; plain vs. wrapped).
// scriptMsgSym > 0 makes the text of SMTP-annotated failures symbolic (that many bytes).
var scriptMsgSym int

func mkMsg(name, def string) string {
	if scriptMsgSym > 0 {
		return nondetString(name+".msg", scriptMsgSym)
	}
	return def
}

// scriptNoVariants fixes the representative of each error class (for harnesses
// whose subject does not depend on it); scriptClasses limits the fault classes
// (3: ok/temporary/permanent; 4 adds unclassified).
var scriptNoVariants bool
var scriptClasses = 4

func mkErr(name string, class int) error {
	// representatives per class: a bare SMTPError, an error carrying only the
	// temporary marker, and an SMTPError wrapped with fields the way the real
	// SMTP/LMTP/remote clients wrap theirs (moduleError)
	variant := func(n int) int {
		if scriptNoVariants {
			return 0
		}
		return nondetChoice(name+".variant", n)
	}
	wrap := func(err error) error {
		return exterrors.WithFields(err, map[string]interface{}{"target": "script"})
	}
	switch class {
	case fTemp:
		switch variant(3) {
		case 1:
			return exterrors.WithTemporary(errors.New(name+": temporary"), true)
		case 2:
			return wrap(&exterrors.SMTPError{Code: 451, EnhancedCode: exterrors.EnhancedCode{4, 2, 1}, Message: mkMsg(name, name+": try later")})
		}
		return &exterrors.SMTPError{Code: 451, EnhancedCode: exterrors.EnhancedCode{4, 2, 1}, Message: mkMsg(name, name+": try later")}
	case fPerm:
		switch variant(3) {
		case 1:
			return exterrors.WithTemporary(errors.New(name+": permanent"), false)
		case 2:
			return wrap(&exterrors.SMTPError{Code: 550, EnhancedCode: exterrors.EnhancedCode{5, 1, 1}, Message: mkMsg(name, name+": rejected")})
		}
		return &exterrors.SMTPError{Code: 550, EnhancedCode: exterrors.EnhancedCode{5, 1, 1}, Message: mkMsg(name, name+": rejected")}
	case fUnspec:
		if variant(2) != 0 {
			return fmt.Errorf("%s: wrapped: %w", name, errors.New("io failure"))
		}
		return errors.New(name + ": unclassified")
	}
	return nil
}

type scriptTarget struct {
	onlyStatusFaults bool // faults only in per-recipient body statuses
	lenientAbort     bool // Abort after a failed Commit is tolerated (not every caller's contract forbids it)
	name             string
	partial          bool // offers module.PartialDelivery
	faultFree        bool
	attempt          int
	deliveries       []*scriptDelivery
}

type scriptDelivery struct {
	t         *scriptTarget
	attempt   int
	from      string
	meta      *module.MsgMetadata
	accepted  []string
	offered   []string
	rcptFault map[string]int // class of the failure each recipient experienced at RCPT (0 = none)
	bodyFault int
	statFault map[string]int
	commFault int
	bodyDone  bool
	closed    string // "", "commit", "abort"
	committed map[string]bool
	header    textproto.Header
	body      []byte
	bodyErr   error
	// the error values handed out (for oracles about stored statuses)
	startErr error
	rcptErr  map[string]error
	statErr  map[string]error
	bodyRet  error
	commErr  error
}

// lastErr is the error the target reported last for recipient r in this delivery (nil if none).
func (d *scriptDelivery) lastErr(r string) error {
	if d.closed == "start-failed" {
		return d.startErr
	}
	if e := d.rcptErr[r]; e != nil {
		return e
	}
	if d.commErr != nil {
		return d.commErr
	}
	if d.bodyRet != nil {
		return d.bodyRet
	}
	return d.statErr[r]
}

type scriptPartial struct{ *scriptDelivery }

func (t *scriptTarget) fault(name string) int {
	if t.faultFree {
		return fOK
	}
	if t.onlyStatusFaults && !strings.HasPrefix(name, "status.") {
		return fOK
	}
	return nondetInt(fmt.Sprintf("%s.%d.%s", t.name, t.attempt, name), 0, scriptClasses-1)
}

func (t *scriptTarget) Start(ctx context.Context, msgMeta *module.MsgMetadata, mailFrom string) (module.Delivery, error) {
	t.attempt++
	if c := t.fault("start"); c != fOK {
		d := &scriptDelivery{t: t, attempt: t.attempt, closed: "start-failed", rcptFault: map[string]int{}, statFault: map[string]int{}}
		d.bodyFault = c // recorded as the failure every recipient experienced
		t.deliveries = append(t.deliveries, d)
		d.startErr = mkErr(t.name+".start", c)
		return nil, d.startErr
	}
	d := &scriptDelivery{t: t, attempt: t.attempt, from: mailFrom, meta: msgMeta, rcptFault: map[string]int{}, statFault: map[string]int{}, committed: map[string]bool{},
		rcptErr: map[string]error{}, statErr: map[string]error{}}
	t.deliveries = append(t.deliveries, d)
	if t.partial {
		return scriptPartial{d}, nil
	}
	return d, nil
}

func (d *scriptDelivery) check(op string) {
	if d.closed != "" {
		verifFail("typestate." + d.t.name + "." + op + "-after-" + d.closed)
	}
}

func (d *scriptDelivery) AddRcpt(ctx context.Context, rcptTo string, opts smtp.RcptOptions) error {
	d.check("addrcpt")
	if d.bodyDone {
		verifFail("typestate." + d.t.name + ".addrcpt-after-body")
	}
	d.offered = append(d.offered, rcptTo)
	if c := d.t.fault("rcpt." + rcptTo); c != fOK {
		d.rcptFault[rcptTo] = c
		d.rcptErr[rcptTo] = mkErr(d.t.name+".rcpt", c)
		return d.rcptErr[rcptTo]
	}
	d.accepted = append(d.accepted, rcptTo)
	return nil
}

func (d *scriptDelivery) readBody(header textproto.Header, body buffer.Buffer) {
	d.header = header
	r, err := body.Open()
	if err != nil {
		d.bodyErr = err
		return
	}
	defer r.Close()
	b, err := io.ReadAll(r)
	if err != nil {
		d.bodyErr = err
	}
	d.body = b
}

func (d *scriptDelivery) Body(ctx context.Context, header textproto.Header, body buffer.Buffer) error {
	d.check("body")
	if d.bodyDone {
		verifFail("typestate." + d.t.name + ".body-twice")
	}
	d.bodyDone = true
	d.readBody(header, body)
	if c := d.t.fault("body"); c != fOK {
		d.bodyFault = c
		d.bodyRet = mkErr(d.t.name+".body", c)
		return d.bodyRet
	}
	return nil
}

func (p scriptPartial) BodyNonAtomic(ctx context.Context, sc module.StatusCollector, header textproto.Header, body buffer.Buffer) {
	d := p.scriptDelivery
	d.check("bodynonatomic")
	if d.bodyDone {
		verifFail("typestate." + d.t.name + ".body-twice")
	}
	d.bodyDone = true
	d.readBody(header, body)
	for _, r := range d.accepted {
		c := d.t.fault("status." + r)
		d.statFault[r] = c
		d.statErr[r] = mkErr(d.t.name+".status", c)
		sc.SetStatus(r, d.statErr[r])
	}
}

func (d *scriptDelivery) Commit(ctx context.Context) error {
	d.check("commit")
	if !d.bodyDone {
		verifFail("typestate." + d.t.name + ".commit-without-body")
	}
	d.closed = "commit"
	if c := d.t.fault("commit"); c != fOK {
		d.commFault = c
		d.commErr = mkErr(d.t.name+".commit", c)
		return d.commErr
	}
	for _, r := range d.accepted {
		if d.bodyFault == fOK && d.statFault[r] == fOK {
			d.committed[r] = true
		}
	}
	return nil
}

func (d *scriptDelivery) Abort(ctx context.Context) error {
	if d.t.lenientAbort && d.closed == "commit" && d.commFault != fOK {
		return nil
	}
	d.check("abort")
	d.closed = "abort"
	return nil
}

// faults returns the classes of every failure recipient r experienced in this delivery.
func (d *scriptDelivery) faults(r string) (temp, perm bool) {
	add := func(c int) {
		if c == fTemp || c == fUnspec {
			temp = true
		}
		if c == fPerm {
			perm = true
		}
	}
	if d.closed == "start-failed" {
		add(d.bodyFault)
		return
	}
	add(d.rcptFault[r])
	if d.rcptFault[r] == fOK {
		add(d.bodyFault)
		add(d.statFault[r])
		add(d.commFault)
	}
	return
}

// committedCount: number of deliveries that committed the message for r.
func (t *scriptTarget) committedCount(r string) int {
	n := 0
	for _, d := range t.deliveries {
		if d.closed == "commit" && d.committed[r] {
			n++
		}
	}
	return n
}

// reportsNaming counts committed transactions of a bounce target whose
// delivery-status part names r as a final recipient.
func (t *scriptTarget) reportsNaming(r string) int {
	n := 0
	for _, d := range t.deliveries {
		if d.closed == "commit" && bytes.Contains(d.body, []byte("Final-Recipient: rfc822; "+r+"\r\n")) {
			n++
		}
	}
	return n
}

func (t *scriptTarget) committedDeliveries() int {
	n := 0
	for _, d := range t.deliveries {
		if d.closed == "commit" && d.commFault == fOK {
			n++
		}
	}
	return n
}

// openDeliveries: deliveries neither committed nor aborted.
func (t *scriptTarget) openDeliveries() int {
	n := 0
	for _, d := range t.deliveries {
		if d.closed == "" {
			n++
		}
	}
	return n
}

var _ = strings.Contains
