package queue

import "github.com/emersion/go-smtp"

type smtpSMTPError = smtp.SMTPError
type smtpRcptOptions = smtp.RcptOptions
type smtpEnhCode = smtp.EnhancedCode
