package queue

import (
	"fmt"
	"io"
	"time"

	"github.com/emersion/go-message/textproto"
	"github.com/foxcpp/maddy/framework/buffer"
	"github.com/foxcpp/maddy/framework/log"
	"github.com/foxcpp/maddy/framework/module"
	"github.com/foxcpp/maddy/internal/dsn"
)

func init() {
	verifRegister("harness_C01_step", harness_C01_step)
	verifRegister("harness_C01_base", harness_C01_base)
}

// Generation of the report text (templates, MIME) is not C01's subject: under
// symgo it is replaced by a recorder that writes one Final-Recipient line per
// named recipient - the same lines the real generator emits, which is what the
// bounce target looks for in both modes.
//
//verif:stub github.com/foxcpp/maddy/internal/dsn.GenerateDSN @!harness_C18_report
func stubGenerateDSN(utf8 bool, envelope dsn.Envelope, mtaInfo dsn.ReportingMTAInfo, rcptsInfo []dsn.RecipientInfo, failedHeader textproto.Header, outWriter io.Writer) (textproto.Header, error) {
	for _, r := range rcptsInfo {
		io.WriteString(outWriter, "Final-Recipient: rfc822; "+r.FinalRecipient+"\r\n")
	}
	h := textproto.Header{}
	h.Add("To", envelope.To)
	return h, nil
}

var c01Rcpts = []string{"a@example.org", "b@example.org", "c@example.org"}

type c01Wheel struct {
	dispatched []TimeSlot
}

func c01Queue(dir string, tgt, bounce module.DeliveryTarget, maxTries int, w *c01Wheel) *Queue {
	q := &Queue{
		name:             "q",
		location:         dir,
		hostname:         "mx.example.org",
		autogenMsgDomain: "example.org",
		initialRetryTime: 1, // 1ns: keeps the (opaque) retry delay out of the formulas
		retryTimeScale:   1.25,
		maxTries:         maxTries,
		postInitDelay:    0,
		Log:              log.Logger{},
		Target:           tgt,
	}
	if bounce != nil {
		q.dsnPipeline = bounce
	}
	q.wheel = NewTimeWheel(func(s TimeSlot) { w.dispatched = append(w.dispatched, s) })
	q.deliverySemaphore = make(chan struct{}, 1)
	return q
}

// scheduled = entries handed to the wheel and not lost: still waiting or already dispatched.
func c01Scheduled(q *Queue, w *c01Wheel) int {
	if !verifSymbolic() {
		// natively the wheel's own goroutine may be between taking an entry off
		// the list and handing it to the dispatch callback: let it finish
		time.Sleep(50 * time.Millisecond)
	}
	q.wheel.slotsLock.Lock()
	n := q.wheel.slots.Len()
	q.wheel.slotsLock.Unlock()
	return n + len(w.dispatched)
}

func contains(l []string, s string) bool {
	for _, x := range l {
		if x == s {
			return true
		}
	}
	return false
}

// One attempt from an arbitrary valid spool state (inductive step).
func harness_C01_step() {
	n := verifParam("rcpts", 2)
	fsReset()
	scriptNoVariants, scriptClasses, scriptMsgSym = verifParam("variants", 1) == 0, 4, 0
	dir := qDir()
	rcpts := c01Rcpts[:n]
	maxTries := nondetInt("maxTries", 1, 3)
	tgt := &scriptTarget{name: "tgt", partial: verifParam("partial", 0) == 1}
	bounce := &scriptTarget{name: "bounce", faultFree: true}
	hasBounce := nondetBool("hasBounce")
	w := &c01Wheel{}
	var q *Queue
	if hasBounce {
		q = c01Queue(dir, tgt, bounce, maxTries, w)
	} else {
		q = c01Queue(dir, tgt, nil, maxTries, w)
	}
	sender := "sender@example.net"
	nullSender := nondetBool("nullSender")
	if nullSender {
		sender = ""
	}
	// ---- arbitrary pre-state satisfying the invariant ----
	meta := &QueueMetadata{
		MsgMeta:    &module.MsgMetadata{ID: "msg1", OriginalFrom: sender},
		From:       sender,
		To:         append([]string(nil), rcpts...),
		RcptErrs:   nil,
		TriesCount: map[string]int{},
	}
	pre := map[string]int{}
	for _, r := range rcpts {
		t := nondetInt("tries."+r, 0, 2)
		verifAssume(t < maxTries)
		pre[r] = t
		if t > 0 {
			meta.TriesCount[r] = t
		}
	}
	hdr := textproto.Header{}
	hdr.Add("Subject", "c01")
	// the spool entry as acceptance leaves it
	qd := &queueDelivery{q: q, meta: &QueueMetadata{MsgMeta: meta.MsgMeta, From: sender, To: meta.To, RcptErrs: map[string]*smtpErr{}, TriesCount: meta.TriesCount}}
	crashAtSaved := fsm.crashAt
	if err := qd.Body(nil, hdr, buffer.MemoryBuffer{Slice: []byte("body\r\n")}); err != nil {
		verifStop()
	}
	fsm.crashAt = crashAtSaved
	meta = qd.meta
	body := qd.body

	q.tryDelivery(meta, hdr, body)

	// ---- oracle ----
	if len(tgt.deliveries) != 1 {
		verifFail("C01.attempts-per-dispatch")
	}
	d := tgt.deliveries[0]
	if d.closed == "" {
		verifFail("C01.delivery-left-open")
	}
	for _, r := range d.offered {
		if !contains(rcpts, r) {
			verifFail("C01.foreign-recipient")
		}
	}
	durable := qReadMeta(q, "msg1")
	scheduled := c01Scheduled(q, w)
	if (durable != nil) != (scheduled == 1) || scheduled > 1 {
		verifFail("C01.spool-and-schedule-disagree")
	}
	if durable != nil && len(durable.To) == 0 {
		verifFail("C01.requeued-without-recipients")
	}
	if durable == nil && (qExists(q, "msg1", ".header") || qExists(q, "msg1", ".body")) {
		verifFail("C01.spool-entry-not-removed")
	}
	suppressed := nullSender || !hasBounce
	for _, r := range rcpts {
		committed := tgt.committedCount(r)
		reported := bounce.reportsNaming(r)
		inPost := durable != nil && contains(durable.To, r)
		temp, perm := d.faults(r)
		failed := temp || perm
		verifLog("rcpt", r, "committed", committed, "reported", reported, "inPost", inPost, "temp", temp, "perm", perm)
		if committed > 1 || reported > 1 {
			verifFail("C01.duplicate-outcome")
		}
		switch {
		case !failed:
			// delivered
			if committed != 1 {
				verifFail("C01.accepted-but-not-committed")
			}
			if inPost {
				verifFail("C01.retried-after-success")
			}
			if reported != 0 {
				verifFail("C01.reported-after-success")
			}
			verifCover("C01.delivered")
		default:
			if committed != 0 {
				verifFail("C01.model-committed-despite-failure")
			}
			exhausted := pre[r]+1 >= maxTries
			mayRetry := temp && !exhausted
			mayFail := perm || (temp && exhausted)
			if inPost {
				if !mayRetry {
					verifFail("C01.retried-after-permanent-or-exhausted")
				}
				if reported != 0 {
					verifFail("C01.reported-and-requeued")
				}
				post := durable.TriesCount[r]
				if post != pre[r]+1 || post >= maxTries {
					verifFail("C01.tries-count")
				}
				verifCover("C01.requeued")
			} else {
				if !mayFail {
					verifFail("C01.dropped-instead-of-retry")
				}
				if suppressed && reported != 0 {
					verifFail("C01.report-despite-null-sender")
				}
				if !suppressed && reported != 1 {
					verifFail("C01.lost-without-report")
				}
				if reported == 1 {
					verifCover("C01.reported")
				}
			}
		}
	}
	if durable != nil {
		if durable.RcptErrs == nil {
			verifFail("C01.invariant-rcpterrs")
		}
		for _, r := range durable.To {
			if !contains(rcpts, r) {
				verifFail("C01.invariant-foreign-pending")
			}
		}
	}
	if bounce.openDeliveries() != 0 || tgt.openDeliveries() != 0 {
		verifFail("C01.delivery-left-open")
	}
	verifCover("C01.step-end")
}

type smtpErr = smtpSMTPError

// Base case: what Start/AddRcpt/Body/Commit leave behind satisfies the invariant
// the step assumes, and the slot handed to the scheduler carries it.
func harness_C01_base() {
	n := verifParam("rcpts", 2)
	fsReset()
	dir := qDir()
	w := &c01Wheel{}
	tgt := &scriptTarget{name: "tgt", faultFree: true}
	q := c01Queue(dir, tgt, nil, 3, w)
	sender := "sender@example.net"
	if nondetBool("nullSender") {
		sender = ""
	}
	mm := &module.MsgMetadata{ID: "msg1", OriginalFrom: sender}
	d, err := q.Start(nil, mm, sender)
	if err != nil {
		verifFail("C01.base-start")
	}
	for _, r := range c01Rcpts[:n] {
		if err := d.AddRcpt(nil, r, smtpRcptOptions{}); err != nil {
			verifFail("C01.base-addrcpt")
		}
	}
	hdr := textproto.Header{}
	hdr.Add("Subject", "c01")
	if err := d.Body(nil, hdr, buffer.MemoryBuffer{Slice: []byte("body\r\n")}); err != nil {
		verifFail("C01.base-body")
	}
	if err := d.Commit(nil); err != nil {
		verifFail("C01.base-commit")
	}
	if c01Scheduled(q, w) != 1 {
		verifFail("C01.base-not-scheduled-once")
	}
	durable := qReadMeta(q, "msg1")
	if durable == nil {
		verifFail("C01.base-no-durable-meta")
	}
	if len(durable.To) != n || durable.RcptErrs == nil || durable.MsgMeta == nil || durable.MsgMeta.ID != "msg1" || durable.From != sender {
		verifFail("C01.base-invariant")
	}
	for _, r := range c01Rcpts[:n] {
		if !contains(durable.To, r) || durable.TriesCount[r] != 0 {
			verifFail("C01.base-invariant-rcpts")
		}
	}
	if !qExists(q, "msg1", ".header") || !qExists(q, "msg1", ".body") {
		verifFail("C01.base-files")
	}
	verifCover("C01.base-end")
	_ = fmt.Sprint
}
