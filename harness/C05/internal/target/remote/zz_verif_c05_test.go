package remote

import (
	"context"
	"crypto/tls"
	"crypto/x509"
	"errors"
	"fmt"
	"io"
	"net"
	"strings"

	"github.com/emersion/go-message/textproto"
	"github.com/emersion/go-smtp"
	"github.com/foxcpp/go-mtasts"
	"github.com/foxcpp/maddy/framework/buffer"
	"github.com/foxcpp/maddy/framework/config"
	"github.com/foxcpp/maddy/framework/dns"
	"github.com/foxcpp/maddy/framework/exterrors"
	"github.com/foxcpp/maddy/framework/log"
	"github.com/foxcpp/maddy/framework/module"
	"github.com/foxcpp/maddy/internal/limits"
	"github.com/foxcpp/maddy/internal/smtpconn"
	"github.com/foxcpp/maddy/internal/smtpconn/pool"
	mdns "github.com/miekg/dns"
)

func init() { verifRegister("harness_C05_policy", harness_C05_policy) }

// ---------------------------------------------------------------------------
// the world: facts about the recipient domain and its MX hosts (symbolic)

const (
	hsVerified  = 0 // certificate verifies (PKIX)
	hsVerifyErr = 1 // certificate verification fails
	hsOtherErr  = 2 // handshake fails otherwise
)
const (
	tlsaAddrErr   = 0 // address lookup fails (SERVFAIL, bogus signature)
	tlsaInsecureA = 1 // address records are not DNSSEC-authenticated: no DANE
	tlsaLookupErr = 2 // TLSA lookup fails (SERVFAIL)
	tlsaNotFound  = 3 // authenticated denial of existence
	tlsaInsecure  = 4 // TLSA RRset not authenticated
	tlsaRecords   = 5 // authenticated TLSA RRset
)
const (
	daneNoUsable = 0
	daneMatch    = 1
	daneMismatch = 2
)
const (
	stsNone    = 0 // no policy / fetch error
	stsTesting = 1
	stsEnforce = 2
)

type c05Domain struct {
	name         string
	ad           bool // MX RRset DNSSEC-authenticated
	sts          int
	mxLookupFail bool
	hosts        []*c05Host
}

type c05Host struct {
	name        string
	dom         *c05Domain
	connFail    bool
	starttls    bool
	starttlsErr bool // the STARTTLS command is refused
	hs          int
	hsInsecure  bool // handshake succeeds without verification
	reqtls      bool // REQUIRETLS offered
	stsMatch    bool
	tlsa        int
	dane        int
	// the MX name is a DNSSEC-authenticated CNAME alias; TLSA records are looked
	// up at the canonical name first (tlsaC), then under the MX name itself (tlsa)
	cname bool
	tlsaC int
	// next-hop refusals (symbolic only in the permit-accounting harness of C11)
	mailFail, rcptFail, dataFail bool
}

type c05Conn struct {
	host      *c05Host
	client    *smtp.Client
	tlsState  int // 0 plaintext, 1 encrypted unverified, 2 verified
	pendTLS   bool
	pendSkip  bool
	mailOK    bool
	rcpts     []string
	datas     int
	createdBy int // message index that opened the connection
}

type c05Msg struct {
	requireTLS bool
	override   bool
	quarantine bool
}

var c05 struct {
	hosts   []*c05Host
	doms    []*c05Domain
	conns   map[*smtpconn.C]*c05Conn
	clients map[*smtp.Client]*c05Conn
	cur     int
	msgs    []c05Msg
	// configuration
	enMTASTS, enDANE, enDNSSEC, enLocal bool
	minTLS                              module.TLSLevel
	minMX                               module.MXLevel
	allowOverride                       bool
	dataEvents                          int
	noObligation                        bool // C11 harness: permits only
	hopFaults                           bool // next-hop MAIL/RCPT/DATA refusals are symbolic
	cnames                              bool // MX hosts may be CNAME aliases
	plain                               bool // no TLS facts: every host speaks plaintext only (harnesses about results / permits)
}

func c05HostByName(n string) *c05Host {
	n = strings.TrimPrefix(strings.TrimSuffix(n, "."), "canon.")
	for _, h := range c05.hosts {
		if h.name == n {
			return h
		}
	}
	return nil
}

// ---- smtpconn.C (verified separately: C09) ----

//verif:stub (*github.com/foxcpp/maddy/internal/smtpconn.C).Connect @harness_C05_policy,harness_C11_remote,harness_C16_remote,harness_C09_remote
func stubC05Connect(c *smtpconn.C, ctx context.Context, endp config.Endpoint, starttls bool, tlsCfg *tls.Config) (bool, error) {
	h := c05HostByName(endp.Host)
	if h == nil {
		return false, errors.New("model: unknown host " + endp.Host)
	}
	if h.connFail {
		return false, &net.OpError{Op: "dial", Err: errors.New("connection refused")}
	}
	m := &c05Conn{host: h, client: new(smtp.Client), createdBy: c05.cur}
	c05.conns[c] = m
	c05.clients[m.client] = m
	return false, nil
}

//verif:stub (*github.com/foxcpp/maddy/internal/smtpconn.C).Client @harness_C05_policy,harness_C11_remote,harness_C16_remote,harness_C09_remote
func stubC05Client(c *smtpconn.C) *smtp.Client {
	if m := c05.conns[c]; m != nil {
		return m.client
	}
	return nil
}

//verif:stub (*github.com/foxcpp/maddy/internal/smtpconn.C).Close @harness_C05_policy,harness_C11_remote,harness_C16_remote,harness_C09_remote
func stubC05Close(c *smtpconn.C) error {
	if c05.conns[c] == nil {
		panic("runtime error: invalid memory address or nil pointer dereference (Close on a closed smtpconn.C)")
	}
	delete(c05.conns, c)
	return nil
}

//verif:stub (*github.com/foxcpp/maddy/internal/smtpconn.C).DirectClose @harness_C05_policy,harness_C11_remote,harness_C16_remote,harness_C09_remote
func stubC05DirectClose(c *smtpconn.C) error {
	if c05.conns[c] == nil {
		panic("runtime error: invalid memory address or nil pointer dereference (DirectClose on a closed smtpconn.C)")
	}
	delete(c05.conns, c)
	return nil
}

//verif:stub (*github.com/foxcpp/maddy/internal/smtpconn.C).LocalAddr @harness_C05_policy,harness_C11_remote,harness_C16_remote,harness_C09_remote
func stubC05LocalAddr(c *smtpconn.C) net.Addr { return nil }

//verif:stub (*github.com/foxcpp/maddy/internal/smtpconn.C).RemoteAddr @harness_C05_policy,harness_C11_remote,harness_C16_remote,harness_C09_remote
func stubC05RemoteAddr(c *smtpconn.C) net.Addr { return nil }

//verif:stub (*github.com/foxcpp/maddy/internal/smtpconn.C).ServerName @harness_C05_policy,harness_C11_remote,harness_C16_remote,harness_C09_remote
func stubC05ServerName(c *smtpconn.C) string {
	if m := c05.conns[c]; m != nil {
		return m.host.name
	}
	return ""
}

//verif:stub (*github.com/foxcpp/maddy/internal/smtpconn.C).Mail @harness_C05_policy,harness_C11_remote,harness_C16_remote,harness_C09_remote
func stubC05Mail(c *smtpconn.C, ctx context.Context, from string, opts smtp.MailOptions) error {
	m := c05.conns[c]
	if m == nil {
		return errors.New("model: MAIL on a closed connection")
	}
	if opts.RequireTLS && !m.host.reqtls {
		return &exterrors.SMTPError{Code: 550, EnhancedCode: exterrors.EnhancedCode{5, 7, 30}, Message: "REQUIRETLS is not supported by the server"}
	}
	if m.host.mailFail {
		return &exterrors.SMTPError{Code: 550, EnhancedCode: exterrors.EnhancedCode{5, 7, 1}, Message: "sender refused"}
	}
	m.mailOK = true
	m.rcpts = nil
	return nil
}

//verif:stub (*github.com/foxcpp/maddy/internal/smtpconn.C).Rcpt @harness_C05_policy,harness_C11_remote,harness_C16_remote,harness_C09_remote
func stubC05Rcpt(c *smtpconn.C, ctx context.Context, to string, opts smtp.RcptOptions) error {
	m := c05.conns[c]
	if m == nil || !m.mailOK {
		return errors.New("model: RCPT without MAIL")
	}
	if m.host.rcptFail {
		return &exterrors.SMTPError{Code: 550, EnhancedCode: exterrors.EnhancedCode{5, 1, 1}, Message: "no such user"}
	}
	m.rcpts = append(m.rcpts, to)
	return nil
}

//verif:stub (*github.com/foxcpp/maddy/internal/smtpconn.C).Rcpts @harness_C05_policy,harness_C11_remote,harness_C16_remote,harness_C09_remote
func stubC05Rcpts(c *smtpconn.C) []string {
	if m := c05.conns[c]; m != nil {
		return m.rcpts
	}
	return nil
}

// Data is where message content leaves: the obligation of the property is
// evaluated here, from world facts and the state of the modelled connection.
//
//verif:stub (*github.com/foxcpp/maddy/internal/smtpconn.C).Data @harness_C05_policy,harness_C11_remote,harness_C16_remote,harness_C09_remote
func stubC05Data(c *smtpconn.C, ctx context.Context, hdr textproto.Header, body io.Reader) error {
	m := c05.conns[c]
	if m == nil || !m.mailOK || len(m.rcpts) == 0 {
		return errors.New("model: DATA without transaction")
	}
	m.datas++
	c05.dataEvents++
	if !c05.noObligation {
		c05Obligation(m)
	}
	m.mailOK = false
	if m.host.dataFail {
		return &exterrors.SMTPError{Code: 451, EnhancedCode: exterrors.EnhancedCode{4, 3, 0}, Message: "try later"}
	}
	return nil
}

// ---- go-smtp client of a modelled connection ----

//verif:stub (*github.com/emersion/go-smtp.Client).Extension @harness_C05_policy,harness_C11_remote,harness_C16_remote,harness_C09_remote
func stubC05Extension(cl *smtp.Client, ext string) (bool, string) {
	m := c05.clients[cl]
	switch ext {
	case "STARTTLS":
		return m.host.starttls && m.tlsState == 0, ""
	case "REQUIRETLS":
		return m.host.reqtls, ""
	}
	return false, ""
}

//verif:stub (*github.com/emersion/go-smtp.Client).StartTLS @harness_C05_policy,harness_C11_remote,harness_C16_remote,harness_C09_remote
func stubC05StartTLS(cl *smtp.Client, cfg *tls.Config) error {
	m := c05.clients[cl]
	if m.host.starttlsErr {
		return &smtp.SMTPError{Code: 454, EnhancedCode: smtp.EnhancedCode{4, 7, 0}, Message: "TLS not available"}
	}
	m.pendTLS = true
	m.pendSkip = cfg.InsecureSkipVerify
	return nil
}

//verif:stub (*github.com/emersion/go-smtp.Client).Hello @harness_C05_policy,harness_C11_remote,harness_C16_remote,harness_C09_remote
func stubC05Hello(cl *smtp.Client, name string) error {
	m := c05.clients[cl]
	if !m.pendTLS {
		return nil
	}
	m.pendTLS = false
	switch m.host.hs {
	case hsVerified:
		if m.pendSkip {
			m.tlsState = 1
		} else {
			m.tlsState = 2
		}
		return nil
	case hsVerifyErr:
		if m.pendSkip {
			if m.host.hsInsecure {
				m.tlsState = 1
				return nil
			}
			return errors.New("tls: handshake failure")
		}
		return &tls.CertificateVerificationError{Err: errors.New("x509: certificate signed by unknown authority")}
	}
	return errors.New("tls: handshake failure")
}

//verif:stub (*github.com/emersion/go-smtp.Client).TLSConnectionState @harness_C05_policy,harness_C11_remote,harness_C16_remote,harness_C09_remote
func stubC05TLSState(cl *smtp.Client) (tls.ConnectionState, bool) {
	m := c05.clients[cl]
	if m.tlsState == 0 {
		return tls.ConnectionState{}, false
	}
	st := tls.ConnectionState{HandshakeComplete: true, ServerName: m.host.name}
	if m.tlsState == 2 {
		st.VerifiedChains = [][]*x509.Certificate{{}}
	}
	return st, true
}

//verif:stub (*github.com/emersion/go-smtp.Client).Reset @harness_C05_policy,harness_C11_remote,harness_C16_remote,harness_C09_remote
func stubC05Reset(cl *smtp.Client) error { return nil }

// ---- DNS (DNSSEC-aware resolver) ----

//verif:stub (github.com/foxcpp/maddy/framework/dns.ExtResolver).AuthLookupMX @harness_C05_policy,harness_C11_remote,harness_C16_remote,harness_C09_remote
func stubC05LookupMX(e dns.ExtResolver, ctx context.Context, name string) (bool, []*net.MX, error) {
	d := c05DomByName(name)
	if d.mxLookupFail {
		return false, nil, dns.RCodeError{Name: name, Code: mdns.RcodeServerFailure}
	}
	var out []*net.MX
	for i, h := range d.hosts {
		out = append(out, &net.MX{Host: h.name, Pref: uint16(10 * (i + 1))})
	}
	return d.ad, out, nil
}

func c05DomByName(n string) *c05Domain {
	n = strings.TrimSuffix(n, ".")
	for _, d := range c05.doms {
		if d.name == n {
			return d
		}
	}
	return nil
}

//verif:stub (github.com/foxcpp/maddy/framework/dns.ExtResolver).CheckCNAMEAD @harness_C05_policy,harness_C11_remote,harness_C16_remote,harness_C09_remote
func stubC05CheckCNAMEAD(e dns.ExtResolver, ctx context.Context, host string) (bool, string, error) {
	h := c05HostByName(host)
	switch h.tlsa {
	case tlsaAddrErr:
		return false, "", dns.RCodeError{Name: host, Code: mdns.RcodeServerFailure}
	case tlsaInsecureA:
		return false, host, nil
	}
	if h.cname {
		return true, "canon." + host, nil
	}
	return true, host, nil
}

//verif:stub (github.com/foxcpp/maddy/framework/dns.ExtResolver).AuthLookupCNAME @harness_C05_policy,harness_C11_remote,harness_C16_remote,harness_C09_remote
func stubC05LookupCNAME(e dns.ExtResolver, ctx context.Context, host string) (bool, string, error) {
	return false, "", nil
}

//verif:stub (github.com/foxcpp/maddy/framework/dns.ExtResolver).AuthLookupTLSA @harness_C05_policy,harness_C11_remote,harness_C16_remote,harness_C09_remote
func stubC05LookupTLSA(e dns.ExtResolver, ctx context.Context, service, network, domain string) (bool, []dns.TLSA, error) {
	h := c05HostByName(domain)
	kind := h.tlsa
	if strings.HasPrefix(domain, "canon.") {
		kind = h.tlsaC
	}
	switch kind {
	case tlsaLookupErr:
		return false, nil, dns.RCodeError{Name: domain, Code: mdns.RcodeServerFailure}
	case tlsaNotFound:
		return true, nil, dns.RCodeError{Name: domain, Code: mdns.RcodeNameError}
	case tlsaInsecure:
		return false, []dns.TLSA{{Usage: 3, Selector: 1, MatchingType: 1, Certificate: h.name}}, nil
	case tlsaRecords:
		return true, []dns.TLSA{{Usage: 3, Selector: 1, MatchingType: 1, Certificate: h.name}}, nil
	}
	return false, nil, errors.New("model: TLSA lookup although the address lookup was not authenticated")
}

// Contract of verifyDANE (decided by C13): no records: no opinion; records
// and no TLS: refuse; all records unusable: no opinion; a usable record
// matches: authenticated; usable records and none matches: refuse.
//
//verif:stub github.com/foxcpp/maddy/internal/target/remote.verifyDANE @harness_C05_policy,harness_C11_remote,harness_C16_remote,harness_C09_remote
func stubC05VerifyDANE(recs []dns.TLSA, st tls.ConnectionState) (bool, error) {
	if len(recs) == 0 {
		return false, nil
	}
	refuse := &exterrors.SMTPError{Code: 550, EnhancedCode: exterrors.EnhancedCode{5, 7, 1}, Message: "TLS is required but unsupported or failed (enforced by DANE)"}
	if !st.HandshakeComplete {
		return false, refuse
	}
	h := c05HostByName(recs[0].Certificate)
	switch h.dane {
	case daneNoUsable:
		return false, nil
	case daneMatch:
		return true, nil
	}
	return false, refuse
}

// ---------------------------------------------------------------------------
// the obligation, from the statement and the world facts alone

// what TLSA discovery for the host amounts to (RFC 7672 2.2.2: the canonical
// name first; a lookup failure there defers; an authenticated non-empty RRset
// there is used; otherwise the MX name itself is consulted)
func c05DiscoveryFailed(h *c05Host) bool {
	if h.tlsa == tlsaAddrErr {
		return true
	}
	if h.tlsa == tlsaInsecureA {
		return false
	}
	if h.cname {
		if h.tlsaC == tlsaLookupErr {
			return true
		}
		if h.tlsaC == tlsaRecords {
			return false
		}
	}
	return h.tlsa == tlsaLookupErr
}

func c05HasRecords(h *c05Host) bool {
	if h.tlsa == tlsaAddrErr || h.tlsa == tlsaInsecureA {
		return false
	}
	if h.cname {
		if h.tlsaC == tlsaRecords {
			return true
		}
		if h.tlsaC == tlsaLookupErr {
			return false
		}
	}
	return h.tlsa == tlsaRecords
}

func c05Obligation(m *c05Conn) {
	msg := c05.msgs[c05.cur]
	h := m.host
	enc := m.tlsState >= 1
	pkix := m.tlsState == 2
	// consistency of the modelled connection with the world
	if enc && !h.starttls {
		verifFail("C05.model-inconsistent")
	}
	if msg.quarantine {
		verifFail("C05.quarantined-message-relayed")
	}
	inForce := !(msg.override && c05.allowOverride)
	daneUsable := c05.enDANE && c05HasRecords(h) && h.dane != daneNoUsable
	daneAuth := c05.enDANE && enc && c05HasRecords(h) && h.dane == daneMatch
	auth := pkix || daneAuth
	mxlvl := module.MXNone
	if c05.enMTASTS && h.dom.sts != stsNone && h.stsMatch {
		mxlvl = module.MX_MTASTS
	}
	if c05.enDNSSEC && h.dom.ad {
		mxlvl = module.MX_DNSSEC
	}
	if inForce {
		if c05.enMTASTS && h.dom.sts == stsEnforce {
			if !h.stsMatch {
				verifFail("C05.mtasts-enforce-mx-mismatch")
			}
			if !pkix {
				verifFail("C05.mtasts-enforce-without-valid-certificate")
			}
		}
		if c05.enDANE {
			if c05DiscoveryFailed(h) {
				verifFail("C05.sent-despite-tlsa-discovery-failure")
			}
			if c05HasRecords(h) && !enc {
				verifFail("C05.dane-records-but-no-tls")
			}
			if daneUsable && h.dane != daneMatch {
				verifFail("C05.dane-mismatch")
			}
		}
		if c05.enLocal {
			lvl := module.TLSNone
			if enc {
				lvl = module.TLSEncrypted
			}
			if auth {
				lvl = module.TLSAuthenticated
			}
			if lvl < c05.minTLS {
				verifLog("tls level", int(lvl), "required", int(c05.minTLS), "connection opened by message", m.createdBy, "current", c05.cur)
				verifFail("C05.below-min-tls-level")
			}
			if mxlvl < c05.minMX {
				verifLog("mx level", int(mxlvl), "required", int(c05.minMX), "connection opened by message", m.createdBy, "current", c05.cur)
				verifFail("C05.below-min-mx-level")
			}
		}
	}
	if msg.requireTLS {
		if !auth {
			verifFail("C05.requiretls-unauthenticated-connection")
		}
		if mxlvl < module.MX_MTASTS {
			verifFail("C05.requiretls-unauthenticated-mx")
		}
	}
	if m.createdBy != c05.cur {
		verifCover("C05.data-on-reused-connection")
	}
	verifCover("C05.data")
}

// ---------------------------------------------------------------------------

// c05World creates the symbolic facts about the recipient domains and their MX hosts.
func c05World(nmx, ndom int) {
	c05.conns = map[*smtpconn.C]*c05Conn{}
	c05.clients = map[*smtp.Client]*c05Conn{}
	c05.hosts = nil
	c05.dataEvents = 0
	c05.doms = nil
	for di := 0; di < ndom; di++ {
		d := &c05Domain{name: []string{"example.org", "other.example"}[di]}
		dp := ""
		n := nmx
		if di > 0 {
			dp = fmt.Sprintf("d%d.", di+1)
			n = 1
		}
		d.ad = nondetBool(dp + "ad")
		if c05.enMTASTS {
			d.sts = nondetInt(dp+"sts", 0, 2)
		}
		if ndom > 1 {
			d.mxLookupFail = nondetBool(dp + "mxLookupFail")
		}
		for i := 0; i < n; i++ {
			h := &c05Host{name: fmt.Sprintf("mx%d.%s", i+1, d.name), dom: d}
			p := fmt.Sprintf("%smx%d.", dp, i+1)
			h.connFail = nondetBool(p + "connFail")
			if !c05.plain {
				h.starttls = nondetBool(p + "starttls")
				h.starttlsErr = nondetBool(p + "starttlsErr")
				h.hs = nondetInt(p+"hs", 0, 2)
				h.hsInsecure = nondetBool(p + "hsInsecure")
				h.reqtls = nondetBool(p + "reqtls")
			}
			if c05.hopFaults {
				h.mailFail = nondetBool(p + "mailFail")
				h.rcptFail = nondetBool(p + "rcptFail")
				h.dataFail = nondetBool(p + "dataFail")
			}
			if c05.enMTASTS {
				h.stsMatch = nondetBool(p + "stsMatch")
			}
			if c05.enDANE {
				h.tlsa = nondetInt(p+"tlsa", 0, 5)
				h.dane = nondetInt(p+"dane", 0, 2)
				if c05.cnames {
					h.cname = nondetBool(p + "cname")
					h.tlsaC = nondetInt(p+"tlsaC", tlsaLookupErr, tlsaRecords)
				}
			} else {
				h.tlsa = tlsaInsecureA
			}
			d.hosts = append(d.hosts, h)
			c05.hosts = append(c05.hosts, h)
		}
		c05.doms = append(c05.doms, d)
	}

}

// c05Target assembles the remote target the way Init does, with the enabled policies.
func c05Target(relaxed bool) *Target {
	// the target, assembled as Init does
	var policies []module.MXAuthPolicy
	if c05.enMTASTS {
		policies = append(policies, &mtastsPolicy{
			instName: "mtasts",
			mtastsGet: func(ctx context.Context, domain string) (*mtasts.Policy, error) {
				d := c05DomByName(domain)
				if d.sts == stsNone {
					return nil, errors.New("mtasts: no policy")
				}
				p := &mtasts.Policy{Mode: mtasts.ModeTesting, MaxAge: 86400}
				if d.sts == stsEnforce {
					p.Mode = mtasts.ModeEnforce
				}
				for _, h := range d.hosts {
					if h.stsMatch {
						p.MX = append(p.MX, h.name)
					}
				}
				return p, nil
			},
		})
	}
	ext := &dns.ExtResolver{}
	if c05.enDANE {
		policies = append(policies, &danePolicy{instName: "dane", extResolver: ext})
	}
	if c05.enDNSSEC {
		policies = append(policies, &dnssecPolicy{instName: "dnssec"})
	}
	if c05.enLocal {
		policies = append(policies, &localPolicy{instName: "local", minTLSLevel: c05.minTLS, minMXLevel: c05.minMX})
	}
	rt := &Target{
		name:              "remote",
		hostname:          "mx.local.example",
		extResolver:       ext,
		tlsConfig:         &tls.Config{},
		Log:               log.Logger{},
		policies:          policies,
		limits:            &limits.Group{},
		allowSecOverride:  c05.allowOverride,
		relaxedREQUIRETLS: relaxed,
		connReuseLimit:    10,
		pool: pool.New(pool.Config{
			MaxKeys:             5000,
			MaxConnsPerKey:      5,
			MaxConnLifetimeSec:  150,
			StaleKeyLifetimeSec: 300,
		}),
	}

	return rt
}

func harness_C05_policy() {
	nmx := verifParam("nmx", 1)
	nmsg := verifParam("nmsg", 1)
	pol := verifParam("policies", 15) // bit 0 mtasts, 1 dane, 2 dnssec, 3 local_policy
	c05.enMTASTS, c05.enDANE, c05.enDNSSEC, c05.enLocal = pol&1 != 0, pol&2 != 0, pol&4 != 0, pol&8 != 0
	c05.minTLS = module.TLSLevel(verifParam("mintls", 1))
	c05.minMX = module.MXLevel(verifParam("minmx", 0))
	c05.allowOverride = verifParam("override", 1) == 1
	relaxed := verifParam("relaxed", 1) == 1
	flags := verifParam("flags", 7) // which message flags are symbolic: 1 requireTLS, 2 override, 4 quarantine

	c05.conns = map[*smtpconn.C]*c05Conn{}
	c05.clients = map[*smtp.Client]*c05Conn{}
	c05.hosts = nil
	c05.dataEvents = 0
	c05.cnames = verifParam("cname", 0) == 1
	c05World(nmx, verifParam("ndom", 1))
	ndom := len(c05.doms)

	rt := c05Target(relaxed)

	c05.msgs = nil
	ctx := context.Background()
	for i := 0; i < nmsg; i++ {
		msg := c05Msg{}
		if flags&1 != 0 {
			msg.requireTLS = nondetBool(fmt.Sprintf("msg%d.requireTLS", i))
		}
		if flags&2 != 0 {
			msg.override = nondetBool(fmt.Sprintf("msg%d.override", i))
		}
		if flags&4 != 0 {
			msg.quarantine = nondetBool(fmt.Sprintf("msg%d.quarantine", i))
		}
		verifAssume(!(msg.requireTLS && msg.override))
		c05.msgs = append(c05.msgs, msg)
		c05.cur = i
		before := c05.dataEvents
		// the quarantine flag is raised before the delivery starts or by a check of
		// the body stage (after the recipients were accepted); the body is handed
		// over atomically or per recipient
		lateQuarantine := msg.quarantine && flags&8 != 0 && nondetBool(fmt.Sprintf("msg%d.quarantinedAtBody", i))
		perRcpt := flags&8 != 0 && nondetBool(fmt.Sprintf("msg%d.bodyPerRecipient", i))
		meta := &module.MsgMetadata{ID: fmt.Sprintf("c05-%d", i), SMTPOpts: smtp.MailOptions{RequireTLS: msg.requireTLS}, TLSRequireOverride: msg.override, Quarantine: msg.quarantine && !lateQuarantine}
		d, err := rt.Start(ctx, meta, "sender@src.example")
		if err != nil {
			verifFail("C05.harness-start")
		}
		var rerr error
		accepted := 0
		for _, dom := range c05.doms {
			if err := d.AddRcpt(ctx, "u@"+dom.name, smtp.RcptOptions{}); err != nil {
				rerr = err
			} else {
				accepted++
			}
		}
		if accepted > 0 {
			hdr := textproto.Header{}
			hdr.Add("Subject", "c05")
			if lateQuarantine {
				meta.Quarantine = true
			}
			var berr error
			if perRcpt {
				st := &multipleErrs{errs: map[string]error{}}
				d.(module.PartialDelivery).BodyNonAtomic(ctx, st, hdr, buffer.MemoryBuffer{Slice: []byte("x\r\n")})
				for _, e := range st.errs {
					if e != nil {
						berr = e
					}
				}
			} else {
				berr = d.Body(ctx, hdr, buffer.MemoryBuffer{Slice: []byte("x\r\n")})
			}
			if berr == nil {
				d.Commit(ctx)
				verifCover("C05.delivered")
			} else {
				d.Abort(ctx)
			}
		} else {
			d.Abort(ctx)
			// deferred, not bounced, when only TLSA discovery stands in the way
			if nmx == 1 && ndom == 1 && c05.enDANE && !(msg.override && c05.allowOverride) && !msg.quarantine && !msg.requireTLS {
				h := c05.hosts[0]
				discoveryFailed := c05DiscoveryFailed(h)
				stsRefuses := c05.enMTASTS && h.dom.sts == stsEnforce && !h.stsMatch
				if discoveryFailed && !h.connFail && !stsRefuses && !(h.starttls && h.starttlsErr) {
					if !exterrors.IsTemporary(rerr) {
						verifLog("error", rerr.Error())
						verifFail("C05.tlsa-discovery-failure-not-deferred")
					}
					verifCover("C05.deferred-on-discovery-failure")
				}
			}
			verifCover("C05.refused")
		}
		if msg.quarantine && c05.dataEvents != before {
			verifFail("C05.quarantined-message-relayed")
		}
	}
	rt.Close()
	verifCover("C05.end")
}
