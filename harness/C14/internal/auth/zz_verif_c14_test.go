package auth

import (
	"context"

	"github.com/emersion/go-sasl"
	"github.com/foxcpp/maddy/internal/authz"
)

func init() { verifRegister("harness_C14_sasl", harness_C14_sasl) }

var c14Users = []string{"alice", "Alice", "acct1", "bob", ""}
var c14Passwords = []string{"pw1", "pw2", ""}

// provider: accepts exactly one (user, password) pair, both symbolic.
type c14Provider struct {
	user, pass string
	calls      int
}

func (p *c14Provider) AuthPlain(username, password string) error {
	p.calls++
	if username == p.user && password == p.pass {
		return nil
	}
	return ErrInvalidAuthCred
}

// user-name maps
type c14Map struct{ kind int }

func (m c14Map) Lookup(ctx context.Context, s string) (string, bool, error) {
	switch m.kind {
	case 1: // identity
		return s, true, nil
	case 2: // static
		if s == "alice" {
			return "acct1", true, nil
		}
		return "", false, nil
	case 3: // regexp-like, not idempotent
		return s + "x", true, nil
	}
	return "", false, nil
}

type c14Result struct {
	ok       bool
	identity string
	called   bool
}

func c14Run(s *SASLAuth, mech string, authzid, user, pass string) c14Result {
	var res c14Result
	srv := s.CreateSASL(mech, nil, func(identity string, data ContextData) error {
		res.called = true
		res.identity = identity
		return nil
	})
	var err error
	var done bool
	if mech == sasl.Plain {
		_, done, err = srv.Next([]byte(authzid + "\x00" + user + "\x00" + pass))
	} else {
		_, done, err = srv.Next(nil)
		if err == nil && !done {
			_, done, err = srv.Next([]byte(user))
		}
		if err == nil && !done {
			_, done, err = srv.Next([]byte(pass))
		}
	}
	res.ok = err == nil && done && res.called
	return res
}

// PLAIN and LOGIN give the same decision and identity for the same
// credentials, with every kind of user-name map; an authorization identity
// different from the authenticated one is refused.
func harness_C14_sasl() {
	user := nondetChoiceStr("user", c14Users...)
	pass := nondetChoiceStr("pass", c14Passwords...)
	prov := &c14Provider{user: nondetChoiceStr("acceptUser", "alice", "acct1", "alicex", "bob"), pass: nondetChoiceStr("acceptPass", c14Passwords...)}
	s := &SASLAuth{EnableLogin: true, Plain: []modulePlainAuth{prov}}
	mapKind := nondetChoice("map", 4)
	if mapKind != 0 {
		s.AuthMap = c14Map{mapKind}
	}
	if nondetBool("normalize") {
		s.AuthNormalize = authz.NormalizeFuncs["casefold"]
	}
	plain := c14Run(s, sasl.Plain, "", user, pass)
	login := c14Run(s, sasl.Login, "", user, pass)
	if plain.ok != login.ok {
		verifFail("C14.plain-login-decision-differs")
	}
	if plain.ok && plain.identity != login.identity {
		verifFail("C14.plain-login-identity-differs")
	}
	if plain.ok {
		verifCover("C14.sasl-accepted")
	} else {
		verifCover("C14.sasl-refused")
	}
	// authorization identity different from the authenticated one
	authzid := nondetChoiceStr("authzid", "alice", "bob", "acct1")
	z := c14Run(s, sasl.Plain, authzid, user, pass)
	if z.ok && authzid != user {
		verifFail("C14.foreign-authorization-identity-accepted")
	}
	if authzid == user && z.ok != plain.ok {
		verifFail("C14.own-authorization-identity-changes-decision")
	}
	verifCover("C14.sasl-end")
}
