package pass_table

import (
	"context"
	"errors"
	"fmt"
	"strings"
)

func init() { verifRegister("harness_C14_table", harness_C14_table) }

// in-memory credential table
type c14Table struct{ m map[string]string }

func (t *c14Table) Lookup(ctx context.Context, k string) (string, bool, error) {
	v, ok := t.m[k]
	return v, ok, nil
}
func (t *c14Table) Keys() ([]string, error) {
	var ks []string
	for k := range t.m {
		ks = append(ks, k)
	}
	return ks, nil
}
func (t *c14Table) RemoveKey(k string) error { delete(t.m, k); return nil }
func (t *c14Table) SetKey(k, v string) error { t.m[k] = v; return nil }

// Hash contract (A-C14-hash): deterministic, injective, verify iff equal;
// more than 72 bytes are refused at hashing.
//
// The bcrypt primitive itself (the wrappers computeBcrypt / verifyBcrypt run for real).
//
//verif:stub golang.org/x/crypto/bcrypt.GenerateFromPassword
func stubBcryptGenerate(password []byte, cost int) ([]byte, error) {
	if len(password) > 72 {
		return nil, errors.New("bcrypt: password length exceeds 72 bytes")
	}
	return []byte("H(" + string(password) + ")"), nil
}

//verif:stub golang.org/x/crypto/bcrypt.CompareHashAndPassword
func stubBcryptCompare(hashed, password []byte) error {
	if string(hashed) == "H("+string(password)+")" {
		return nil
	}
	return errors.New("bcrypt: hashedPassword is not the hash of the given password")
}

// two accounts, each in several spellings that PRECIS UsernameCaseMapped maps to one key
var c14Names = [][]string{
	{"alice", "Alice", "ALICE", "ａｌｉｃｅ"},
	{"renée", "RENÉE", "renée", "Renée"},
}

var c14Pw = []string{"pw1", "", strings.Repeat("a", 73), "pässwörd", "pw2", strings.Repeat("a", 72)}

// Any history of create / set-password / delete / authenticate.
func harness_C14_table() {
	steps := verifParam("steps", 3)
	a := &Auth{modName: "auth.pass_table", table: &c14Table{m: map[string]string{}}}
	// reference: account -> (exists, current password index); -1 = unspecified by the statement
	exists := [2]bool{}
	cur := [2]int{}
	unknown := [2]bool{}
	for i := 0; i < steps; i++ {
		acct := nondetChoice(fmt.Sprintf("acct%d", i), 2)
		name := c14Names[acct][nondetChoice(fmt.Sprintf("spell%d", i), verifParam("spellings", len(c14Names[acct])))]
		pw := nondetChoice(fmt.Sprintf("pw%d", i), verifParam("pws", len(c14Pw)))
		long := len(c14Pw[pw]) > 72
		switch nondetChoice(fmt.Sprintf("op%d", i), 4) {
		case 0: // create
			err := a.CreateUser(name, c14Pw[pw])
			if exists[acct] || long {
				if err == nil && !unknown[acct] {
					verifFail("C14.create-over-existing-or-unhashable-succeeded")
				}
			} else {
				if err != nil && !unknown[acct] {
					verifFail("C14.create-failed")
				}
				if err == nil {
					exists[acct], cur[acct], unknown[acct] = true, pw, false
				}
			}
		case 1: // set password
			err := a.SetUserPassword(name, c14Pw[pw])
			if long {
				if err == nil {
					verifFail("C14.unhashable-password-accepted")
				}
			} else if err == nil {
				if exists[acct] {
					cur[acct] = pw
				} else {
					// password change of a non-existing account: the statement is silent
					unknown[acct] = true
				}
			} else if exists[acct] && !unknown[acct] {
				verifFail("C14.set-password-failed")
			}
		case 2: // delete
			a.DeleteUser(name)
			exists[acct], unknown[acct] = false, false
		case 3: // authenticate
			err := a.AuthPlain(name, c14Pw[pw])
			if unknown[acct] {
				break
			}
			want := exists[acct] && cur[acct] == pw
			if (err == nil) != want {
				verifLog("auth", name, "pw", pw, "exists", exists[acct], "cur", cur[acct], "err", err != nil)
				if err == nil {
					verifFail("C14.authenticated-with-wrong-or-stale-password")
				}
				verifFail("C14.current-password-refused")
			}
			if want {
				verifCover("C14.auth-ok")
			} else {
				verifCover("C14.auth-refused")
			}
		}
	}
	verifCover("C14.table-end")
}
