package auth

import "github.com/foxcpp/maddy/framework/module"

type modulePlainAuth = module.PlainAuth
