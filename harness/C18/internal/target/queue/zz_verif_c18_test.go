package queue

import (
	"bytes"
	"errors"
	"fmt"
	"io"
	"strings"
	"text/template"

	"github.com/emersion/go-message/textproto"
	"github.com/foxcpp/maddy/framework/buffer"
	"github.com/foxcpp/maddy/framework/exterrors"
	"github.com/foxcpp/maddy/framework/module"
)

func init() { verifRegister("harness_C18_report", harness_C18_report) }

// The human-readable part is produced with text/template (reflection): cut.
//
//verif:stub (*text/template.Template).Execute @harness_C18_report
func stubTemplateExecute(t *template.Template, w io.Writer, data interface{}) error {
	_, err := io.WriteString(w, "(human readable text elided by the model)\r\n")
	return err
}

// The multipart boundary is random (crypto/rand): fixed in the model.
//
//verif:stub github.com/emersion/go-message/textproto.randomBoundary @harness_C18_report
func stubRandomBoundary() string { return "verifboundary0000" }

const (
	c18UDomain = "тест.example"
	c18ADomain = "xn--e1aybc.example"
)

type c18Rcpt struct {
	effective string // what the queue holds
	original  string // what the sender used
}

// Failure reports: envelope, recipient list, status, header, no line injection,
// report delivery failing at any stage.
func harness_C18_report() {
	n := verifParam("rcpts", 2)
	scriptMsgSym = verifParam("msgbytes", 2)
	fsReset()
	dir := qDir()
	maxTries := nondetInt("maxTries", 1, 2)
	scriptNoVariants, scriptClasses = verifParam("variants", 1) == 0, 4
	tgt := &scriptTarget{name: "tgt", partial: verifParam("partial", 1) == 1}
	bounce := &scriptTarget{name: "bounce", lenientAbort: true, faultFree: verifParam("bouncefaults", 1) == 0} // may fail at any stage
	w := &c01Wheel{}
	q := c01Queue(dir, tgt, bounce, maxTries, w)
	sender := "sender@example.net"
	nullSender := nondetBool("nullSender")
	if nullSender {
		sender = ""
	}
	utf8 := nondetBool("utf8")
	mm := &module.MsgMetadata{ID: "msg1", OriginalFrom: sender, OriginalRcpts: map[string]string{}}
	mm.SMTPOpts.UTF8 = utf8
	// recipients with 0, 1 or 2 levels of rewriting between the client's address and the queued one
	var rcpts []c18Rcpt
	var to []string
	// idn = 1: the first recipient may live in an internationalized domain (held
	// in U-label form, as the endpoint normalises it) - at every rewriting level
	idn := verifParam("idn", 0) == 1 && nondetBool("idn")
	for i := 0; i < n; i++ {
		effDom, origDom := "example.org", "example.com"
		if idn && i == 0 {
			effDom, origDom = c18UDomain, c18UDomain
		}
		eff := fmt.Sprintf("eff%d@%s", i, effDom)
		r := c18Rcpt{effective: eff, original: eff}
		switch nondetInt(fmt.Sprintf("rewrites%d", i), 0, verifParam("maxrewrites", 2)) {
		case 1:
			r.original = fmt.Sprintf("orig%d@%s", i, origDom)
			mm.OriginalRcpts[eff] = r.original
		case 2:
			mid := fmt.Sprintf("mid%d@example.org", i)
			r.original = fmt.Sprintf("orig%d@%s", i, origDom)
			mm.OriginalRcpts[mid] = r.original
			mm.OriginalRcpts[eff] = mid
		}
		rcpts = append(rcpts, r)
		to = append(to, eff)
	}
	hdr := textproto.Header{}
	hdr.Add("Subject", "c18 original message")
	qd := &queueDelivery{q: q, meta: &QueueMetadata{MsgMeta: mm, From: sender, To: to, RcptErrs: map[string]*smtpErr{}, TriesCount: map[string]int{}}}
	if err := qd.Body(nil, hdr, buffer.MemoryBuffer{Slice: []byte("body\r\n")}); err != nil {
		verifStop()
	}
	meta := qd.meta
	// arbitrary valid pre-state: an earlier attempt may already have failed
	// (and reported) another recipient; its traces stay in the metadata
	preFailed := nondetBool("preFailed")
	if preFailed {
		meta.FailedRcpts = []string{"old@example.org"}
		meta.RcptErrs["old@example.org"] = &smtpErr{Code: 550, EnhancedCode: smtpEnhCode{5, 1, 1}, Message: "old failure"}
		if err := q.updateMetadataOnDisk(meta); err != nil {
			verifStop()
		}
	}

	attemptBody := qd.body
	if verifParam("reread", 0) == 1 {
		// a later attempt (or a restart): the attempt works on metadata written to
		// the spool and read back
		if err := q.updateMetadataOnDisk(meta); err != nil {
			verifStop()
		}
		m2, h2, b2, err := q.openMessage("msg1")
		if err != nil {
			verifFail("C18.spooled-message-unreadable")
		}
		meta, hdr, attemptBody = m2, h2, b2
		verifCover("C18.attempt-on-reread-metadata")
	}
	q.tryDelivery(meta, hdr, attemptBody)

	// ---- ground truth ----
	d := tgt.deliveries[0]
	durable := qReadMeta(q, "msg1")
	var failed []c18Rcpt
	for _, r := range rcpts {
		temp, perm := d.faults(r.effective)
		if (temp || perm) && !(durable != nil && contains(durable.To, r.effective)) {
			failed = append(failed, r)
		}
	}
	if tgt.openDeliveries() != 0 || bounce.openDeliveries() != 0 {
		verifFail("C18.delivery-left-open")
	}
	if nullSender || len(failed) == 0 {
		if len(bounce.deliveries) != 0 {
			verifFail("C18.report-for-null-sender-or-without-failure")
		}
		verifCover("C18.no-report")
		return
	}
	if len(bounce.deliveries) != 1 {
		verifFail("C18.report-count")
	}
	bd := bounce.deliveries[0]
	if bd.closed == "start-failed" {
		verifCover("C18.bounce-start-failed")
		return
	}
	if bd.from != "" {
		verifFail("C18.report-return-path-not-null")
	}
	if len(bd.offered) != 1 || bd.offered[0] != sender {
		verifFail("C18.report-not-addressed-to-sender")
	}
	if !bd.bodyDone {
		verifCover("C18.bounce-rcpt-failed")
		return
	}
	body := bd.body
	// exactly the terminally failed recipients, each once, under the client's address
	kind := "rfc822; "
	if utf8 {
		kind = "utf8; "
	}
	if bytes.Count(body, []byte("Final-Recipient: ")) != len(failed) {
		verifFail("C18.recipient-count")
	}
	for _, r := range failed {
		// a report that is not SMTPUTF8 names internationalized domains in A-label form
		shown := r.original
		if !utf8 {
			shown = strings.ReplaceAll(shown, c18UDomain, c18ADomain)
		}
		if bytes.Count(body, []byte("Final-Recipient: "+kind+shown+"\r\n")) != 1 {
			verifFail("C18.recipient-not-under-original-address")
		}
	}
	// per-recipient groups: status of the stored error, no injected lines
	rest := body
	for _, r := range failed {
		i := bytes.Index(rest, []byte("Final-Recipient: "))
		if i < 0 {
			verifFail("C18.recipient-group-missing")
		}
		rest = rest[i:]
		end := bytes.Index(rest, []byte("\r\n\r\n"))
		if end < 0 {
			verifFail("C18.recipient-group-unterminated")
		}
		group := rest[:end]
		rest = rest[end:]
		for _, line := range bytes.Split(group, []byte("\r\n")) {
			ok := false
			for _, p := range []string{"Final-Recipient: ", "Action: failed", "Status: ", "Diagnostic-Code: ", "Remote-MTA: ", " ", "\t"} {
				if bytes.HasPrefix(line, []byte(p)) {
					ok = true
				}
			}
			if !ok {
				verifFail("C18.line-injected-into-recipient-group")
			}
			if bytes.IndexByte(line, '\r') >= 0 || bytes.IndexByte(line, '\n') >= 0 {
				verifFail("C18.bare-cr-or-lf-in-recipient-field")
			}
		}
		_ = r
	}
	// status codes of the stored (last) error
	for _, r := range failed {
		var se *exterrors.SMTPError
		if errors.As(d.lastErr(r.effective), &se) {
			want := fmt.Sprintf("Status: %d.%d.%d\r\n", se.EnhancedCode[0], se.EnhancedCode[1], se.EnhancedCode[2])
			if !bytes.Contains(body, []byte(want)) {
				verifFail("C18.status-code-not-the-stored-one")
			}
			verifCover("C18.status-checked")
		}
	}
	if bytes.Contains(body, []byte("old@example.org")) {
		verifFail("C18.report-names-recipient-of-an-earlier-attempt")
	}
	if !bytes.Contains(body, []byte("Subject: c18 original message\r\n")) {
		verifFail("C18.original-header-missing")
	}
	if bd.closed == "commit" && bd.commFault == fOK {
		verifCover("C18.report-committed")
	} else {
		verifCover("C18.report-delivery-failed")
	}
	verifCover("C18.end")
}
