package queue

import (
	"os"
	"path/filepath"
	"strings"

	"github.com/emersion/go-message/textproto"
	"github.com/foxcpp/maddy/framework/buffer"
	"github.com/foxcpp/maddy/framework/module"
)

func init() { verifRegister("harness_C18_chain", harness_C18_chain) }

// Reports never trigger further reports: the bounce pipeline of the first
// queue is a second real queue with a bounce pipeline of its own; the report
// the first queue generates is handed to it and then fails there too
// (temporarily until max_tries, or permanently). The second queue must not
// report about the report.
func harness_C18_chain() {
	fsReset()
	scriptNoVariants, scriptClasses, scriptMsgSym = true, 3, 0
	dir1 := qDir()
	dir2 := filepath.Join(dir1, "q2")
	if !verifSymbolic() {
		os.MkdirAll(dir2, 0o700)
	}
	tgt1 := &scriptTarget{name: "tgt1", partial: true}
	tgt2 := &scriptTarget{name: "tgt2", partial: true}
	bounce2 := &scriptTarget{name: "bounce2", faultFree: true}
	w1, w2 := &c01Wheel{}, &c01Wheel{}
	q2 := c01Queue(dir2, tgt2, bounce2, 1, w2)
	q1 := c01Queue(dir1, tgt1, q2, 1, w1)

	sender := "sender@example.net"
	mm := &module.MsgMetadata{ID: "msg1", OriginalFrom: sender, OriginalRcpts: map[string]string{}}
	hdr := textproto.Header{}
	hdr.Add("Subject", "c18 chain")
	qd := &queueDelivery{q: q1, meta: &QueueMetadata{MsgMeta: mm, From: sender, To: []string{"eff0@example.org"}, RcptErrs: map[string]*smtpErr{}, TriesCount: map[string]int{}}}
	if err := qd.Body(nil, hdr, buffer.MemoryBuffer{Slice: []byte("body\r\n")}); err != nil {
		verifStop()
	}
	q1.tryDelivery(qd.meta, hdr, qd.body)

	// the report, if one was generated, now sits in the second queue
	id2 := "dsn0001" // the model's GenerateMsgID; natively the identifier is random: look it up
	if !verifSymbolic() {
		id2 = ""
		if ents, err := os.ReadDir(dir2); err == nil {
			for _, e := range ents {
				if strings.HasSuffix(e.Name(), ".meta") {
					id2 = strings.TrimSuffix(e.Name(), ".meta")
				}
			}
		}
	}
	meta2, hdr2, body2, err := q2.openMessage(id2)
	if err != nil {
		verifCover("C18.chain-no-report")
		return
	}
	if meta2.From != "" {
		verifFail("C18.report-not-sent-from-null-sender")
	}
	q2.tryDelivery(meta2, hdr2, body2)
	if len(bounce2.deliveries) != 0 {
		verifLog("the second queue generated a report about the failed report")
		verifFail("C18.report-triggered-a-report")
	}
	if tgt2.committedCount(sender) > 0 {
		verifCover("C18.chain-report-delivered")
	} else {
		verifCover("C18.chain-report-failed")
	}
}
