package authorize_sender

import (
	"context"
	"strings"

	"github.com/emersion/go-message/textproto"
	modconfig "github.com/foxcpp/maddy/framework/config/module"
	"github.com/foxcpp/maddy/framework/module"
	"github.com/foxcpp/maddy/internal/authz"
)

func init() { verifRegister("harness_C15_authz", harness_C15_authz) }

// address alphabet with known equivalence classes
const (
	cAlice = iota // the user's own address
	cSales        // second address of the same domain
	cOther        // third address of the same domain
	cEvil         // foreign address
)

type c15Addr struct {
	text  string
	class int
}

var c15Addrs = []c15Addr{
	{"alice@example.org", cAlice},
	{"ALICE@EXAMPLE.ORG", cAlice},
	{"sales@example.org", cSales},
	{"malice@example.org", cOther},    // third address of the domain; has the entitled address as a string suffix
	{"mallory@notexample.org", cEvil}, // foreign domain that has the entitled domain as a string suffix
	{"Alice@Example.Org", cAlice},
	{"Sales@EXAMPLE.org", cSales},
}

// entitlement tables for user alice@example.org
type c15Table struct{ kind int }

func (t c15Table) Lookup(ctx context.Context, user string) (string, bool, error) {
	if user != "alice@example.org" {
		return "", false, nil
	}
	switch t.kind {
	case 0:
		return "alice@example.org", true, nil
	case 2:
		return "example.org", true, nil
	case 3:
		return "*", true, nil
	}
	return "", false, nil
}

type c15Multi struct{ c15Table }

func (t c15Multi) LookupMulti(ctx context.Context, user string) ([]string, error) {
	if user != "alice@example.org" {
		return nil, nil
	}
	return []string{"alice@example.org", "sales@example.org"}, nil
}

type c15Identity struct{}

func (c15Identity) Lookup(ctx context.Context, s string) (string, bool, error) { return s, true, nil }

func c15Entitled(kind, class int) bool {
	switch kind {
	case 0:
		return class == cAlice
	case 1:
		return class == cAlice || class == cSales
	case 2:
		return class != cEvil
	}
	return true
}

func harness_C15_authz() {
	kind := nondetChoice("table", 4) // identity, list, domain, star
	c := &Check{
		instName:      "authz",
		checkHeader:   true,
		emailPrepare:  c15Identity{},
		unauthAction:  modconfig.FailAction{Reject: true},
		noMatchAction: modconfig.FailAction{Reject: true},
		errAction:     modconfig.FailAction{Reject: true},
		fromNorm:      authz.NormalizeAuto,
		authNorm:      authz.NormalizeAuto,
	}
	// normalisation settings: the user name is looked up under auth_normalize,
	// addresses are compared under from_normalize
	anorm := verifParam("anorm", -1) // auto (case-folding), noop, precis (case-preserving)
	if anorm < 0 {
		anorm = nondetChoice("auth_normalize", 3)
	}
	switch anorm {
	case 1:
		c.authNorm = authz.NormalizeNoop
	case 2:
		c.authNorm = authz.NormalizeFuncs["precis"]
	}
	fnoop := verifParam("fnoop", -1)
	if fnoop < 0 {
		fnoop = nondetChoice("from_noop", 2)
	}
	if fnoop == 1 {
		c.fromNorm = authz.NormalizeNoop
	}
	if kind == 1 {
		c.userToEmail = c15Multi{c15Table{kind}}
	} else {
		c.userToEmail = c15Table{kind}
	}
	users := []string{"alice@example.org", "ALICE@Example.ORG", "", "bob@example.org"}
	u := nondetChoice("user", len(users))
	meta := &module.MsgMetadata{ID: "c15", Conn: &module.ConnState{}}
	meta.Conn.AuthUser = users[u]
	// under a case-preserving auth_normalize "ALICE@Example.ORG" is another user (without entitlements)
	isAlice := u == 0 || (u == 1 && anorm == 0)
	st, err := c.CheckStateForMsg(context.Background(), meta)
	if err != nil {
		verifFail("C15.state")
	}
	mf := c15Addrs[nondetChoice("mailfrom", verifParam("naddr", len(c15Addrs)))]
	resS := st.CheckSender(context.Background(), mf.text)

	// header layout
	hdr := textproto.Header{}
	f1 := c15Addrs[nondetChoice("from1", verifParam("naddr", len(c15Addrs)))]
	f2 := c15Addrs[nondetChoice("from2", verifParam("naddr", len(c15Addrs)))]
	var fromAddrs []c15Addr
	layout := nondetChoice("layout", 7)
	switch layout {
	case 0: // one From
		hdr.Add("From", f1.text)
		fromAddrs = []c15Addr{f1}
	case 1: // display name that looks like another address
		hdr.Add("From", "\""+f2.text+"\" <"+f1.text+">")
		fromAddrs = []c15Addr{f1}
	case 2: // two addresses in one field
		hdr.Add("From", f1.text+", "+f2.text)
		fromAddrs = []c15Addr{f1, f2}
	case 3: // two From fields
		hdr.Add("From", f1.text)
		hdr.Add("From", f2.text)
		fromAddrs = []c15Addr{f1, f2}
	case 4: // group syntax
		hdr.Add("From", "Team: "+f1.text+", "+f2.text+";")
		fromAddrs = []c15Addr{f1, f2}
	case 5: // no From
	case 6: // RFC 2047 encoded words in the display name and in a comment whose decoded text is address syntax
		hdr.Add("From", "=?utf-8?q?"+strings.ReplaceAll(f2.text, "@", "=40")+"_=28?= <"+f1.text+"> (=?utf-8?q?=29?=)")
		fromAddrs = []c15Addr{f1}
	}
	var senderAddr *c15Addr
	switch nondetChoice("sender", 3) {
	case 1:
		s := c15Addrs[nondetChoice("senderAddr", verifParam("naddr", len(c15Addrs)))]
		hdr.Add("Sender", s.text)
		senderAddr = &s
	case 2:
		hdr.Add("Sender", "not an address")
	}
	hdr.Add("Subject", "c15")
	resB := st.CheckBody(context.Background(), hdr, nil)
	st.Close()

	accepted := !resS.Reject && !resS.Quarantine && !resB.Reject && !resB.Quarantine
	if !accepted {
		verifCover("C15.refused")
		return
	}
	// ---- accepted: must be justified ----
	if !isAlice {
		if users[u] == "" {
			verifFail("C15.unauthenticated-accepted")
		}
		verifFail("C15.user-without-entitlement-accepted")
	}
	// under from_normalize noop an address is entitled only in the exact spelling of the table entry
	exact := fnoop == 1
	ent := func(a c15Addr) bool {
		if !c15Entitled(kind, a.class) {
			return false
		}
		if exact {
			switch kind {
			case 0:
				return a.text == "alice@example.org"
			case 1:
				return a.text == "alice@example.org" || a.text == "sales@example.org"
			case 2:
				return strings.HasSuffix(a.text, "@example.org") && strings.Count(a.text, "@") == 1
			}
		}
		return true
	}
	if !ent(mf) {
		verifFail("C15.envelope-sender-not-entitled")
	}
	if len(fromAddrs) == 0 {
		verifFail("C15.accepted-without-author")
	}
	allFrom := true
	for _, a := range fromAddrs {
		if !ent(a) {
			allFrom = false
		}
	}
	senderOK := senderAddr != nil && ent(*senderAddr)
	if !allFrom && !senderOK {
		verifFail("C15.author-not-entitled")
	}
	verifCover("C15.accepted")
}
