package address

func init() {
	verifRegister("harness_selftest_basic", harness_selftest_basic)
	verifRegister("harness_selftest_split", harness_selftest_split)
}

func harness_selftest_basic() {
	x := nondetInt("x", 0, 100)
	y := nondetInt("y", 0, 100)
	if x+y == 150 && x > 60 {
		verifCover("sum150")
		if y > 90 {
			verifFail("impossible") // y>90 => x<60
		}
	}
	if x*2 == 7 {
		verifFail("odd")
	}
	m := map[string]int{"a": 1}
	m["b"] = x
	if m["b"] != x {
		verifFail("map")
	}
	s := nondetString("s", 3)
	if s == "abc" {
		verifCover("abc")
		if s[1] != 'b' {
			verifFail("str")
		}
	}
	if x == 42 {
		verifFail("x42") // must be reported
	}
	verifCover("end")
}

func harness_selftest_split() {
	s := nondetString("s", verifParam("n", 3))
	mbox, dom, err := Split(s)
	if err == nil {
		verifCover("split-ok")
		if dom != "" && mbox+"@"+dom != s {
			verifFail("split-roundtrip")
		}
	} else {
		verifCover("split-err")
	}
}
