package msgpipeline

import (
	"context"
	"errors"
	"fmt"

	"github.com/emersion/go-message/textproto"
	"github.com/emersion/go-smtp"
	"github.com/foxcpp/maddy/framework/buffer"
	"github.com/foxcpp/maddy/framework/config"
	"github.com/foxcpp/maddy/framework/dns"
	"github.com/foxcpp/maddy/framework/exterrors"
	"github.com/foxcpp/maddy/framework/log"
	"github.com/foxcpp/maddy/framework/module"
	"github.com/foxcpp/maddy/internal/modify"
)

func init() {
	verifRegister("harness_C04_routing", harness_C04_routing)
	verifRegister("harness_C04_incomplete", harness_C04_incomplete)
}

// normalisers are evaluated per alternative of a finite-alphabet string, the
// choice itself stays symbolic
//
//verif:pure github.com/foxcpp/maddy/framework/address.ForLookup
//verif:pure github.com/foxcpp/maddy/framework/dns.ForLookup
//verif:pure github.com/foxcpp/maddy/framework/address.Split
//verif:pure github.com/foxcpp/maddy/framework/address.Valid
//verif:pure github.com/foxcpp/maddy/framework/address.ValidDomain
//verif:pure strings.Contains
//verif:pure github.com/foxcpp/maddy/internal/msgpipeline.validMatchRule

//verif:stub github.com/foxcpp/maddy/framework/dns.DefaultResolver
func stubDefaultResolver() dns.Resolver { return nil }

// ---- alphabet: address classes and domain classes with spelling variants ----

type c04Spelling struct {
	text  string
	addr  int // address class, -1 for a bare domain
	dom   int // domain class
	clean string
}

var c04Keys = []c04Spelling{
	{"u@example.org", 0, 0, "u@example.org"},
	{"U@EXAMPLE.ORG", 0, 0, "u@example.org"},
	{"v@example.org", 1, 0, "v@example.org"},
	{"u@example.net", 2, 1, "u@example.net"},
	{"u@тест.example", 3, 2, "u@тест.example"},
	{"u@xn--e1aybc.example", 3, 2, "u@тест.example"},
	{"é@example.net", 4, 1, "é@example.net"},  // NFC
	{"é@example.net", 4, 1, "é@example.net"}, // NFD
	{"example.org", -1, 0, "example.org"},
	{"EXAMPLE.org", -1, 0, "example.org"},
	{"example.net", -1, 1, "example.net"},
	{"тест.example", -1, 2, "тест.example"},
	{"XN--E1AYBC.example", -1, 2, "тест.example"},
}

const (
	c04NAddr  = 8 // the first spellings are full addresses (envelope alphabet)
	c04NClass = 5
)

func c04Texts(n int) []string {
	var out []string
	for _, k := range c04Keys[:n] {
		out = append(out, k.text)
	}
	return out
}

// class of a spelling, as terms over the selector (no forking); -2 = no such rule
func c04AddrClass(s string) int {
	c := -2
	for i := len(c04Keys) - 1; i >= 0; i-- {
		c = verifIte(s == c04Keys[i].text, c04Keys[i].addr, c)
	}
	return c
}
func c04DomClass(s string) int {
	c := -2
	for i := len(c04Keys) - 1; i >= 0; i-- {
		c = verifIte(s == c04Keys[i].text, c04Keys[i].dom, c)
	}
	return c
}

// tables with symbolic membership per address class (looked up by the cleaned address)
type c04Table struct {
	name    string
	member  [c04NClass]bool
	replace []string
}

func (t *c04Table) Name() string              { return "c04_table" }
func (t *c04Table) InstanceName() string      { return t.name }
func (t *c04Table) Init(cfg *config.Map) error { return nil }

func (t *c04Table) hit(key string) bool {
	m := false
	for _, k := range c04Keys[:c04NAddr] {
		m = verifOr(m, verifAnd(key == k.clean, t.member[k.addr]))
	}
	return m
}
func (t *c04Table) Lookup(ctx context.Context, key string) (string, bool, error) {
	if t.hit(key) {
		if len(t.replace) > 0 {
			return t.replace[0], true, nil
		}
		return "", true, nil
	}
	return "", false, nil
}
func (t *c04Table) LookupMulti(ctx context.Context, key string) ([]string, error) {
	if t.hit(key) {
		return t.replace, nil
	}
	return nil, nil
}

var c04Tables map[string]*c04Table
var c04Targets map[string]*c04Target
var c04Order []*c04Target

type c04Target struct {
	name          string
	src, dst, sub int
	got           []string
}
type c04Delivery struct{ t *c04Target }

func (t *c04Target) Name() string              { return "c04_target" }
func (t *c04Target) InstanceName() string      { return t.name }
func (t *c04Target) Init(cfg *config.Map) error { return nil }

func (t *c04Target) Start(ctx context.Context, m *module.MsgMetadata, from string) (module.Delivery, error) {
	return &c04Delivery{t}, nil
}
func (d *c04Delivery) AddRcpt(ctx context.Context, to string, o smtp.RcptOptions) error {
	d.t.got = append(d.t.got, to)
	return nil
}
func (d *c04Delivery) Body(ctx context.Context, h textproto.Header, b buffer.Buffer) error { return nil }
func (d *c04Delivery) Commit(ctx context.Context) error                                   { return nil }
func (d *c04Delivery) Abort(ctx context.Context) error                                    { return nil }

// module resolution: names resolve to the harness objects
//
//verif:stub github.com/foxcpp/maddy/framework/config/module.DeliveryTarget
func stubDeliveryTarget(globals map[string]interface{}, args []string, block config.Node) (module.DeliveryTarget, error) {
	t, ok := c04Targets[args[0][1:]]
	if !ok {
		return nil, errors.New("unknown target " + args[0])
	}
	return t, nil
}

//verif:stub github.com/foxcpp/maddy/framework/config/module.ModuleFromNode
func stubModuleFromNode(ns string, args []string, inline config.Node, globals map[string]interface{}, iface interface{}) error {
	switch p := iface.(type) {
	case *module.Table:
		t, ok := c04Tables[args[0][1:]]
		if !ok {
			return errors.New("unknown table " + args[0])
		}
		*p = t
		return nil
	case *module.MultiTable:
		t, ok := c04Tables[args[0][1:]]
		if !ok {
			return errors.New("unknown table " + args[0])
		}
		*p = t
		return nil
	case **modify.Group:
		g := &modify.Group{}
		for _, ch := range inline.Children {
			m, err := modify.NewReplaceAddr("modify."+ch.Name, "", nil, ch.Args)
			if err != nil {
				return err
			}
			if err := m.Init(config.NewMap(globals, config.Node{})); err != nil {
				return err
			}
			g.Modifiers = append(g.Modifiers, m.(module.Modifier))
		}
		*p = g
		return nil
	}
	return errors.New("model: unexpected module kind")
}

// native replay goes through the real module registry
func c04Register() {
	if verifSymbolic() {
		return
	}
	for _, t := range c04Tables {
		module.RegisterInstance(t, nil)
	}
}

func c04Modify(directive, table string) config.Node {
	return config.Node{Name: "modify", Children: []config.Node{{Name: directive, Args: []string{"&" + table}}}}
}

func c04Leaf(src, dst, sub int, reject, two bool) []config.Node {
	name := fmt.Sprintf("t%d.%d.%d", src, dst, sub)
	if reject {
		return []config.Node{{Name: "reject", Args: []string{"551", "5.1.6", "refused by " + name}}}
	}
	var out []config.Node
	names := []string{name}
	if two {
		names = append(names, name+"b")
	}
	for _, n := range names {
		t := &c04Target{name: n, src: src, dst: dst, sub: sub}
		c04Targets[n] = t
		c04Order = append(c04Order, t)
		if !verifSymbolic() {
			module.RegisterInstance(t, nil)
		}
		out = append(out, config.Node{Name: "deliver_to", Args: []string{"&" + n}})
	}
	return out
}

type c04Shape struct {
	rejects   int  // mask over the four destination leaves
	srcReject int  // mask over the four source blocks: the block only rejects
	two       bool // two deliver_to per leaf
	reroute   bool // default_destination reroutes into a nested pipeline
	rwScope   int  // 0 none, 1 global, 2 source block, 3 destination block, 4 global+source
	k3, k4    string
	k5        string
}

// source-level block: destination_in tblD / destination K3 / destination K4 / default_destination
func c04SrcBlock(src int, sh *c04Shape) []config.Node {
	if sh.srcReject&(1<<src) != 0 {
		return []config.Node{{Name: "reject", Args: []string{"552", "5.7.1", fmt.Sprintf("sender refused by s%d", src)}}}
	}
	leaf := func(dst int) []config.Node {
		var out []config.Node
		if sh.rwScope == 3 {
			out = append(out, c04Modify("replace_rcpt", "tblRW"))
		}
		if dst == 3 && sh.reroute {
			out = append(out, config.Node{Name: "reroute", Children: []config.Node{
				{Name: "destination", Args: []string{sh.k5}, Children: c04Leaf(src, 3, 1, false, sh.two)},
				{Name: "default_destination", Children: c04Leaf(src, 3, 2, false, sh.two)},
			}})
			return out
		}
		return append(out, c04Leaf(src, dst, 0, sh.rejects&(1<<dst) != 0, sh.two)...)
	}
	var out []config.Node
	if sh.rwScope == 2 || sh.rwScope == 4 {
		// the source scope rewrites through its own table (other replacements than the global one)
		out = append(out, c04Modify("replace_rcpt", "tblRW2"))
	}
	return append(out,
		config.Node{Name: "destination_in", Args: []string{"&tblD"}, Children: leaf(0)},
		config.Node{Name: "destination", Args: []string{sh.k3}, Children: leaf(1)},
		config.Node{Name: "destination", Args: []string{sh.k4}, Children: leaf(2)},
		config.Node{Name: "default_destination", Children: leaf(3)},
	)
}

// reference: which rule of {table, A, B, default} decides for an address of
// class (addr, dom): table, then full address, then domain, then default;
// among equal kinds the first declaration wins
func c04Pick(inTable bool, kA, kB string, addr, dom int) int {
	aAddr, bAddr := c04AddrClass(kA), c04AddrClass(kB)
	aDom, bDom := c04DomClass(kA), c04DomClass(kB)
	aIsAddr, bIsAddr := aAddr >= 0, bAddr >= 0
	r := 3 // default
	r = verifIte(verifAnd(verifAnd(!bIsAddr, bDom >= 0), bDom == dom), 2, r)
	r = verifIte(verifAnd(verifAnd(!aIsAddr, aDom >= 0), aDom == dom), 1, r)
	r = verifIte(verifAnd(bIsAddr, bAddr == addr), 2, r)
	r = verifIte(verifAnd(aIsAddr, aAddr == addr), 1, r)
	r = verifIte(inTable, 0, r)
	return r
}

func c04InTable(t *c04Table, addr int) bool {
	in := false
	for c := 0; c < c04NClass; c++ {
		in = verifOr(in, verifAnd(addr == c, t.member[c]))
	}
	return in
}

// reference rewriting: the table's replacement list if the address (by class) is a member
func c04Rewrite(t *c04Table, in []string) []string {
	var out []string
	for _, a := range in {
		if c04InTable(t, c04AddrClass(a)) {
			out = append(out, t.replace...)
		} else {
			out = append(out, a)
		}
	}
	return out
}

type c04Expect struct {
	dst, sub int
	addr     string
}

func harness_C04_routing() {
	sh := &c04Shape{
		rejects:   verifParam("rejects", 0),
		srcReject: verifParam("srcreject", 0),
		two:       verifParam("two", 0) == 1,
		reroute:   verifParam("reroute", 0) == 1,
		rwScope:   verifParam("rwscope", 1),
	}
	rwN := verifParam("rwn", 1)
	senderRW := verifParam("srw", 0) == 1
	c04Tables = map[string]*c04Table{
		"tblS":   {name: "tblS"},
		"tblD":   {name: "tblD"},
		"tblRW":  {name: "tblRW", replace: []string{"u@example.net", "v@example.org"}[:rwN]},
		"tblRW2": {name: "tblRW2", replace: []string{"u@example.org", "é@example.net"}[:rwN]},
		"tblRWS": {name: "tblRWS", replace: []string{"v@example.org"}},
	}
	c04Targets = map[string]*c04Target{}
	c04Order = nil
	c04Register()
	for c := 0; c < c04NClass; c++ {
		c04Tables["tblS"].member[c] = nondetBool(fmt.Sprintf("tblS.%d", c))
		c04Tables["tblD"].member[c] = nondetBool(fmt.Sprintf("tblD.%d", c))
		if sh.rwScope != 0 {
			c04Tables["tblRW"].member[c] = nondetBool(fmt.Sprintf("tblRW.%d", c))
			c04Tables["tblRW2"].member[c] = nondetBool(fmt.Sprintf("tblRW2.%d", c))
		}
		if senderRW {
			c04Tables["tblRWS"].member[c] = nondetBool(fmt.Sprintf("tblRWS.%d", c))
		}
	}
	all := c04Texts(len(c04Keys))
	k1 := nondetChoiceStr("k1", all...)
	k2 := nondetChoiceStr("k2", all...)
	sh.k3 = nondetChoiceStr("k3", all...)
	sh.k4 = nondetChoiceStr("k4", all...)
	if verifParam("fixkeys", 0) == 1 {
		// reduced shape for the rewrite-heavy quick job: concrete rule keys
		k1, k2, sh.k3, sh.k4 = "U@EXAMPLE.ORG", "example.net", "u@example.net", "EXAMPLE.org"
	}
	if sh.reroute {
		sh.k5 = nondetChoiceStr("k5", all...)
	}
	var nodes []config.Node
	if sh.rwScope == 1 || sh.rwScope == 4 {
		nodes = append(nodes, c04Modify("replace_rcpt", "tblRW"))
	}
	if senderRW {
		nodes = append(nodes, c04Modify("replace_sender", "tblRWS"))
	}
	nodes = append(nodes,
		config.Node{Name: "source_in", Args: []string{"&tblS"}, Children: c04SrcBlock(0, sh)},
		config.Node{Name: "source", Args: []string{k1}, Children: c04SrcBlock(1, sh)},
		config.Node{Name: "source", Args: []string{k2}, Children: c04SrcBlock(2, sh)},
		config.Node{Name: "default_source", Children: c04SrcBlock(3, sh)},
	)
	cfg, err := parseMsgPipelineRootCfg(nil, nodes)
	if err != nil {
		verifLog("load error", err.Error())
		verifFail("C04.complete-configuration-refused")
	}
	envAddrs := c04Texts(c04NAddr)
	sender := nondetChoiceStr("sender", append([]string{""}, envAddrs...)...)
	rcpt := nondetChoiceStr("rcpt", envAddrs...)

	// ---- reference: sender side ----
	effSender := sender
	if senderRW && sender != "" && c04InTable(c04Tables["tblRWS"], c04AddrClass(sender)) {
		effSender = "v@example.org"
	}
	sAddr, sDom := c04AddrClass(effSender), c04DomClass(effSender)
	srcSel := c04Pick(c04InTable(c04Tables["tblS"], sAddr), k1, k2, sAddr, sDom)
	wantSrcReject := verifOr(verifOr(verifAnd(srcSel == 0, sh.srcReject&1 != 0), verifAnd(srcSel == 1, sh.srcReject&2 != 0)),
		verifOr(verifAnd(srcSel == 2, sh.srcReject&4 != 0), verifAnd(srcSel == 3, sh.srcReject&8 != 0)))

	d := MsgPipeline{msgpipelineCfg: cfg, Log: log.Logger{}}
	ctx := context.Background()
	meta := &module.MsgMetadata{ID: "c04", OriginalFrom: sender}
	dl, err := d.Start(ctx, meta, sender)
	if err != nil {
		verifAssert(wantSrcReject, "C04.sender-refused-but-block-accepts")
		var se *exterrors.SMTPError
		if !errors.As(err, &se) || se.Code != 552 {
			verifFail("C04.sender-refusal-does-not-carry-the-block-reply")
		}
		for s := 0; s < 4; s++ {
			verifAssert(verifImplies(srcSel == s, se.Message == fmt.Sprintf("sender refused by s%d", s)), "C04.sender-refused-with-another-blocks-reply")
		}
		verifCover("C04.sender-rejected")
		return
	}
	rcptErr := dl.AddRcpt(ctx, rcpt, smtp.RcptOptions{})
	if sh.srcReject != 0 {
		// a source block that only rejects refuses every recipient of that
		// sender with its reply (the sender itself is accepted at MAIL)
		verifAssert(wantSrcReject == (rcptErr != nil), "C04.source-reject-block-verdict")
		if rcptErr != nil {
			var se *exterrors.SMTPError
			if !errors.As(rcptErr, &se) || se.Code != 552 {
				verifFail("C04.sender-refusal-does-not-carry-the-block-reply")
			}
			for s := 0; s < 4; s++ {
				verifAssert(verifImplies(srcSel == s, se.Message == fmt.Sprintf("sender refused by s%d", s)), "C04.sender-refused-with-another-blocks-reply")
			}
			for _, t := range c04Order {
				if len(t.got) != 0 {
					verifFail("C04.refused-recipient-reached-a-target")
				}
			}
			dl.Abort(ctx)
			verifCover("C04.sender-rejected")
			return
		}
	}
	if rcptErr == nil {
		hdr := textproto.Header{}
		hdr.Add("Subject", "c04")
		if err := dl.Body(ctx, hdr, buffer.MemoryBuffer{Slice: []byte("x\r\n")}); err != nil {
			verifFail("C04.body-failed")
		}
		dl.Commit(ctx)
	} else {
		dl.Abort(ctx)
	}

	// ---- reference: recipient side ----
	addrs := []string{rcpt}
	if sh.rwScope == 1 || sh.rwScope == 4 {
		addrs = c04Rewrite(c04Tables["tblRW"], addrs)
	}
	if sh.rwScope == 2 || sh.rwScope == 4 {
		addrs = c04Rewrite(c04Tables["tblRW2"], addrs)
	}
	var expect []c04Expect
	var rejectAt []bool // per routed address: does its block reject
	for _, a := range addrs {
		rAddr, rDom := c04AddrClass(a), c04DomClass(a)
		dstSel := c04Pick(c04InTable(c04Tables["tblD"], rAddr), sh.k3, sh.k4, rAddr, rDom)
		final := []string{a}
		if sh.rwScope == 3 {
			final = c04Rewrite(c04Tables["tblRW"], final)
		}
		rej := verifOr(verifOr(verifAnd(dstSel == 0, sh.rejects&1 != 0), verifAnd(dstSel == 1, sh.rejects&2 != 0)),
			verifOr(verifAnd(dstSel == 2, sh.rejects&4 != 0), verifAnd(dstSel == 3, verifAnd(!sh.reroute, sh.rejects&8 != 0))))
		rejectAt = append(rejectAt, rej)
		for _, f := range final {
			sub := 0
			if sh.reroute {
				// nested pipeline: one destination rule k5 and a default
				fAddr, fDom := c04AddrClass(f), c04DomClass(f)
				n := c04Pick(false, sh.k5, "", fAddr, fDom) // 1 = rule, 3 = default
				sub = verifIte(dstSel == 3, verifIte(n == 1, 1, 2), 0)
			}
			expect = append(expect, c04Expect{dst: dstSel, sub: sub, addr: f})
		}
	}

	if rcptErr != nil {
		anyRej := false
		for _, r := range rejectAt {
			anyRej = verifOr(anyRej, r)
		}
		verifAssert(anyRej, "C04.recipient-refused-but-block-delivers")
		var se *exterrors.SMTPError
		if !errors.As(rcptErr, &se) || se.Code != 551 {
			verifFail("C04.refusal-does-not-carry-the-block-reply")
		}
		if len(addrs) == 1 {
			for s := 0; s < 4; s++ {
				for dst := 0; dst < 4; dst++ {
					verifAssert(verifImplies(verifAnd(srcSel == s, expect[0].dst == dst), se.Message == fmt.Sprintf("refused by t%d.%d.0", s, dst)), "C04.refused-with-another-blocks-reply")
				}
			}
			for _, t := range c04Order {
				if len(t.got) != 0 {
					verifFail("C04.refused-recipient-reached-a-target")
				}
			}
		}
		verifCover("C04.rejected")
		return
	}
	for _, r := range rejectAt {
		verifAssert(!r, "C04.recipient-accepted-but-block-rejects")
	}
	// every expected (block, address) pair is seen by all targets of that block
	perLeaf := 1
	if sh.two {
		perLeaf = 2
	}
	total := 0
	for _, t := range c04Order {
		total += len(t.got)
		for _, e := range expect {
			here := verifAnd(verifAnd(srcSel == t.src, e.dst == t.dst), e.sub == t.sub)
			seen := false
			for _, g := range t.got {
				seen = verifOr(seen, g == e.addr)
			}
			verifAssert(verifImplies(here, seen), "C04.selected-block-target-did-not-get-the-recipient")
		}
		// and nothing else is seen by any target
		for _, g := range t.got {
			ok := false
			for _, e := range expect {
				ok = verifOr(ok, verifAnd(verifAnd(verifAnd(srcSel == t.src, e.dst == t.dst), e.sub == t.sub), g == e.addr))
			}
			verifAssert(ok, "C04.target-outside-the-selected-block-saw-the-recipient")
		}
	}
	if total != perLeaf*len(expect) {
		verifLog("deliveries", total, "expected", perLeaf*len(expect))
		verifFail("C04.recipient-delivery-count")
	}
	verifCoverIf(srcSel == 0, "C04.source-table")
	verifCoverIf(srcSel == 1, "C04.source-rule")
	verifCoverIf(srcSel == 3, "C04.source-default")
	verifCoverIf(expect[0].dst == 0, "C04.destination-table")
	verifCoverIf(expect[0].dst == 2, "C04.destination-rule2")
	verifCoverIf(expect[0].dst == 3, "C04.destination-default")
	if len(addrs) > 1 {
		verifCover("C04.one-to-many")
	}
	if sh.rwScope != 0 {
		verifCoverIf(addrs[0] != rcpt, "C04.rewritten")
	}
	verifCover("C04.routed")
}

// Configurations that leave some sender/recipient combination without an
// explicit decision are refused at load time.
func harness_C04_incomplete() {
	c04Tables = map[string]*c04Table{"tblS": {name: "tblS"}, "tblD": {name: "tblD"}, "tblRW": {name: "tblRW"}}
	c04Targets = map[string]*c04Target{}
	c04Order = nil
	c04Register()
	leaf := c04Leaf(0, 0, 0, false, false)
	modOnly := []config.Node{c04Modify("replace_rcpt", "tblRW")}
	cases := [][]config.Node{
		// 0: sources without default_source
		{{Name: "source", Args: []string{"example.org"}, Children: leaf}},
		// 1: destinations without default_destination
		{{Name: "destination", Args: []string{"example.org"}, Children: leaf}},
		// 2: a destination block without any decision
		{{Name: "destination", Args: []string{"example.org"}, Children: []config.Node{}}, {Name: "default_destination", Children: leaf}},
		// 3: default_destination without any decision
		{{Name: "destination", Args: []string{"example.org"}, Children: leaf}, {Name: "default_destination", Children: []config.Node{}}},
		// 4: a source block without any decision
		{{Name: "source", Args: []string{"example.org"}, Children: []config.Node{}}, {Name: "default_source", Children: leaf}},
		// 5: nothing at all
		{},
		// 6: destination_in block without any decision
		{{Name: "destination_in", Args: []string{"&tblD"}, Children: []config.Node{}}, {Name: "default_destination", Children: leaf}},
		// 7: source block whose destinations lack a default
		{{Name: "source", Args: []string{"example.org"}, Children: []config.Node{{Name: "destination", Args: []string{"example.net"}, Children: leaf}}}, {Name: "default_source", Children: leaf}},
		// 8: destination block that only rewrites
		{{Name: "destination", Args: []string{"example.org"}, Children: modOnly}, {Name: "default_destination", Children: leaf}},
		// 9: default_destination that only rewrites
		{{Name: "destination", Args: []string{"example.org"}, Children: leaf}, {Name: "default_destination", Children: modOnly}},
		// 10: default_source that only rewrites
		{{Name: "source", Args: []string{"example.org"}, Children: leaf}, {Name: "default_source", Children: modOnly}},
		// 11: source_in block without any decision
		{{Name: "source_in", Args: []string{"&tblS"}, Children: []config.Node{}}, {Name: "default_source", Children: leaf}},
		// 12: only a rewrite at top level
		modOnly,
		// 13: nested pipeline without a decision for some recipients
		{{Name: "reroute", Children: []config.Node{{Name: "destination", Args: []string{"example.org"}, Children: leaf}}}},
		// 14: empty reroute
		{{Name: "reroute", Children: []config.Node{}}},
	}
	k := nondetChoice("case", len(cases))
	_, err := parseMsgPipelineRootCfg(nil, cases[k])
	if err == nil {
		verifLog("incomplete configuration accepted, case", k)
		verifFail("C04.incomplete-configuration-accepted")
	}
	verifCover("C04.incomplete-refused")
}
