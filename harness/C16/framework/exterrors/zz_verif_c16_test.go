package exterrors

import "errors"

func init() { verifRegister("harness_C16_helpers", harness_C16_helpers) }

// Helper-computed codes: for every error value, the basic code chosen by
// SMTPCode and the enhanced code produced by SMTPEnchCode for the same error
// are of the same class, and that class is "4" exactly for temporary errors.
func harness_C16_helpers() {
	var err error = errors.New("x")
	if nondetBool("annotated") {
		code := nondetInt("code", 400, 599)
		err = &SMTPError{Code: code, EnhancedCode: EnhancedCode{code / 100, 0, 0}}
	}
	if nondetBool("marked") {
		err = WithTemporary(err, nondetBool("marker"))
	}
	tc := nondetInt("tempCode", 400, 499)
	pc := nondetInt("permCode", 500, 599)
	c := SMTPCode(err, tc, pc)
	ec := SMTPEnchCode(err, EnhancedCode{0, nondetInt("subject", 0, 7), nondetInt("detail", 0, 30)})
	if c/100 != ec[0] {
		verifFail("C16.helper-class-mismatch")
	}
	if IsTemporary(err) != (c/100 == 4) {
		verifFail("C16.helper-code-vs-temporary")
	}
	verifCover("C16.helpers-end")
}
