package smtp

import (
	"context"
	"errors"
	"fmt"
	"net"

	"github.com/emersion/go-smtp"
	"github.com/foxcpp/maddy/framework/exterrors"
)

func init() { verifRegister("harness_C16_wrapErr", harness_C16_wrapErr) }

// c16Chain builds an arbitrary error value from the error-wrapping primitives,
// nested up to `depth` layers. Every field that matters is symbolic.
// It returns the error, whether an SMTP-annotated layer is present, whether a
// classification (Temporary method) is present and, if so, its value.
// Assumption A-C16-consistent: classifications inside one chain do not
// contradict each other (an explicit marker around a 5xx annotation says
// "permanent", etc.); coherence of each literal is the subject of part (b).
type c16Info struct {
	annotated  bool
	classified bool
	temporary  bool
	deadline   bool
	// the outermost SMTP-annotated layer carries codes but no reply text
	outerEmpty bool
}

// internal details that must never reach the client through a reply text
var c16Details = []string{"secret-reason", "/var/lib/maddy", "plain failure", "connection refused", "lookup failed", "context "}

func c16Contains(h, n string) bool {
	for i := 0; i+len(n) <= len(h); i++ {
		if h[i:i+len(n)] == n {
			return true
		}
	}
	return false
}

func c16SMTP(inner error, info *c16Info, k int) error {
	code := nondetInt(fmt.Sprintf("code%d", k), 400, 599)
	verifAssume(code/100 == 4 || code/100 == 5)
	temp := code/100 == 4
	// an SMTP-annotated layer outside anything else decides: its Temporary()
	// is found first and its fields override inner ones, so no consistency
	// assumption is needed here (inner layers may be of the other class)
	info.classified, info.temporary, info.annotated = true, temp, true
	ec := exterrors.EnhancedCode{code / 100, nondetInt(fmt.Sprintf("ec1_%d", k), 0, 7), nondetInt(fmt.Sprintf("ec2_%d", k), 0, 30)}
	if nondetBool(fmt.Sprintf("ecUnset%d", k)) {
		// a literal that does not set the enhanced code at all
		ec = exterrors.EnhancedCode{}
	}
	info.outerEmpty = false
	if verifParam("emptymsg", 0) == 1 {
		// an annotation that sets the codes and leaves the reply text empty; the
		// reason (internal detail) is given explicitly or is the inner error's text
		switch nondetChoice(fmt.Sprintf("text%d", k), 3) {
		case 1:
			info.outerEmpty = true
			return &exterrors.SMTPError{Code: code, EnhancedCode: ec, Reason: "secret-reason: open /var/lib/maddy/x.meta", Err: inner}
		case 2:
			info.outerEmpty = true
			return &exterrors.SMTPError{Code: code, EnhancedCode: ec, Err: inner}
		}
	}
	return &exterrors.SMTPError{Code: code, EnhancedCode: ec, Message: nondetString(fmt.Sprintf("msg%d", k), verifParam("msglen", 2)), Err: inner}
}

func c16Chain(depth int) (error, c16Info) {
	var info c16Info
	var err error
	switch nondetChoice("base", 5) {
	case 0:
		err = errors.New("plain failure")
	case 1:
		err = c16SMTP(nil, &info, 0)
	case 2:
		err = context.DeadlineExceeded
		info.deadline = true
		// context.DeadlineExceeded has Temporary() == true
		info.classified, info.temporary = true, true
	case 3:
		t := nondetBool("dns.temp")
		err = &net.DNSError{Err: "lookup failed", Name: "example.org", IsTemporary: t, IsTimeout: false}
		info.classified, info.temporary = true, t
	case 4:
		err = &net.OpError{Op: "dial", Net: "tcp", Err: errors.New("connection refused")}
		// OpError.Temporary() is false for a plain inner error
		info.classified, info.temporary = true, false
	}
	for k := 1; k < depth; k++ {
		switch nondetChoice(fmt.Sprintf("wrap%d", k), 5) {
		case 0:
			return err, info
		case 1:
			t := nondetBool(fmt.Sprintf("marker%d", k))
			if info.classified {
				verifAssume(info.temporary == t)
			}
			info.classified, info.temporary = true, t
			err = exterrors.WithTemporary(err, t)
		case 2:
			err = exterrors.WithFields(err, map[string]interface{}{"target": "remote", "remote_server": "mx.example.org"})
		case 3:
			err = fmt.Errorf("context %d: %w", k, err)
		case 4:
			if info.deadline {
				verifStop()
			}
			err = c16SMTP(err, &info, k)
		}
	}
	return err, info
}

func harness_C16_wrapErr() {
	depth := verifParam("depth", 3)
	err, info := c16Chain(depth)
	mangle := nondetBool("mangleUTF8")
	endp := &Endpoint{name: "smtp"}
	msgID := ""
	if nondetBool("withMsgID") {
		msgID = "abcdef12"
	}
	r, ok := endp.wrapErr(msgID, mangle, "DATA", err).(*smtp.SMTPError)
	if !ok || r == nil {
		verifFail("C16.wrapErr-not-smtp-error")
	}
	cls := r.Code / 100
	if cls != 4 && cls != 5 {
		verifFail("C16.wrapErr-code-class")
	}
	if r.EnhancedCode != smtp.EnhancedCodeNotSet && r.EnhancedCode[0] != cls {
		verifFail("C16.wrapErr-class-mismatch")
	}
	// agreement with the queue's retry decision for classified failures
	if info.classified {
		retried := exterrors.IsTemporaryOrUnspec(err)
		if retried != info.temporary {
			verifFail("C16.classification-lost")
		}
		if retried && cls != 4 {
			verifFail("C16.retried-but-5yz")
		}
		if !retried && cls != 5 {
			verifFail("C16.not-retried-but-4yz")
		}
		verifCover("C16.classified")
	}
	if !info.annotated && !info.deadline {
		want := "Internal server error"
		if msgID != "" {
			want += " (msg ID = " + msgID + ")"
		}
		if r.Message != want {
			verifFail("C16.unannotated-discloses-detail")
		}
		verifCover("C16.unannotated")
	}
	if info.annotated && info.outerEmpty {
		// an annotation without text: whatever the reply says, it is not the internal reason
		for _, d := range c16Details {
			if c16Contains(r.Message, d) {
				verifFail("C16.annotation-without-text-discloses-detail")
			}
		}
		verifCover("C16.annotation-without-text")
	}
	if mangle {
		for i := 0; i < len(r.Message); i++ {
			if r.Message[i] >= 0x80 {
				verifFail("C16.non-ascii-reply-without-smtputf8")
			}
		}
		verifCover("C16.mangled")
	}
	verifCover("C16.wrapErr-end")
}
