package remote

import (
	"context"
	"errors"

	"github.com/emersion/go-smtp"
	"github.com/foxcpp/maddy/framework/exterrors"
	"github.com/foxcpp/maddy/framework/module"
)

func init() { verifRegister("harness_C16_remote", harness_C16_remote) }

// Errors the remote target computes from the failures of several MX
// candidates (newConn, attemptMX, connectionForDomain, lookupMX): the basic
// code, the enhanced code and the temporary/permanent classification the
// queue acts on must agree. World and connection model are those of the C05
// harness.
func harness_C16_remote() {
	nmx := verifParam("nmx", 2)
	pol := verifParam("policies", 15)
	c05.enMTASTS, c05.enDANE, c05.enDNSSEC, c05.enLocal = pol&1 != 0, pol&2 != 0, pol&4 != 0, pol&8 != 0
	c05.minTLS = module.TLSLevel(verifParam("mintls", 1))
	c05.minMX = module.MXLevel(verifParam("minmx", 0))
	c05.allowOverride = true
	c05.noObligation, c05.hopFaults = true, verifParam("hopfaults", 0) == 1
	c05World(nmx, 1)
	rt := c05Target(true)
	ctx := context.Background()
	requireTLS := nondetBool("requireTLS")
	c05.msgs = []c05Msg{{requireTLS: requireTLS}}
	c05.cur = 0
	meta := &module.MsgMetadata{ID: "c16", SMTPOpts: smtp.MailOptions{RequireTLS: requireTLS}}
	d, err := rt.Start(ctx, meta, "sender@src.example")
	if err != nil {
		verifFail("C16.harness-start")
	}
	rerr := d.AddRcpt(ctx, "u@example.org", smtp.RcptOptions{})
	d.Abort(ctx)
	rt.Close()
	if rerr == nil {
		verifCover("C16.remote-accepted")
		return
	}
	var se *exterrors.SMTPError
	if errors.As(rerr, &se) {
		if se.Code < 400 || se.Code > 599 {
			verifLog("code", se.Code)
			verifFail("C16.remote-code-out-of-range")
		}
		if se.EnhancedCode[0] != 0 && se.EnhancedCode[0] != se.Code/100 {
			verifLog("reply", se.Code, se.EnhancedCode[0], se.EnhancedCode[1], se.EnhancedCode[2], se.Message)
			verifFail("C16.remote-code-classes-differ")
		}
		if exterrors.IsTemporary(rerr) != (se.Code/100 == 4) {
			verifLog("reply", se.Code, "temporary", exterrors.IsTemporary(rerr))
			verifFail("C16.remote-retry-decision-differs-from-reply-class")
		}
		if se.Code/100 == 4 {
			verifCover("C16.remote-temporary")
		} else {
			verifCover("C16.remote-permanent")
		}
	}
	verifCover("C16.remote-refused")
}
