package queue

import (
	"errors"
	"fmt"
	"net"

	"github.com/foxcpp/maddy/framework/exterrors"
)

func init() { verifRegister("harness_C16_toSMTPErr", harness_C16_toSMTPErr) }

type c16Info struct {
	annotated  bool
	classified bool
	temporary  bool
}

func c16SMTP(inner error, info *c16Info, k int) error {
	code := nondetInt(fmt.Sprintf("code%d", k), 400, 599)
	temp := code/100 == 4
	// an SMTP-annotated layer outside anything else decides: its Temporary()
	// is found first and its fields override inner ones, so no consistency
	// assumption is needed here (inner layers may be of the other class)
	info.classified, info.temporary, info.annotated = true, temp, true
	ec := exterrors.EnhancedCode{code / 100, nondetInt(fmt.Sprintf("ec1_%d", k), 0, 7), nondetInt(fmt.Sprintf("ec2_%d", k), 0, 30)}
	if nondetBool(fmt.Sprintf("ecUnset%d", k)) {
		// a literal that does not set the enhanced code at all
		ec = exterrors.EnhancedCode{}
	}
	return &exterrors.SMTPError{Code: code, EnhancedCode: ec, Message: nondetString(fmt.Sprintf("msg%d", k), verifParam("msglen", 1)), Err: inner}
}

func c16Chain(depth int) (error, c16Info) {
	var info c16Info
	var err error
	switch nondetChoice("base", 4) {
	case 0:
		err = errors.New("plain failure")
	case 1:
		err = c16SMTP(nil, &info, 0)
	case 2:
		t := nondetBool("dns.temp")
		err = &net.DNSError{Err: "lookup failed", Name: "example.org", IsTemporary: t}
		info.classified, info.temporary = true, t
	case 3:
		err = &net.OpError{Op: "dial", Net: "tcp", Err: errors.New("connection refused")}
		info.classified, info.temporary = true, false
	}
	for k := 1; k < depth; k++ {
		switch nondetChoice(fmt.Sprintf("wrap%d", k), 5) {
		case 0:
			return err, info
		case 1:
			t := nondetBool(fmt.Sprintf("marker%d", k))
			if info.classified {
				verifAssume(info.temporary == t)
			}
			info.classified, info.temporary = true, t
			err = exterrors.WithTemporary(err, t)
		case 2:
			err = exterrors.WithFields(err, map[string]interface{}{"target": "remote"})
		case 3:
			err = fmt.Errorf("context %d: %w", k, err)
		case 4:
			err = c16SMTP(err, &info, k)
		}
	}
	return err, info
}

// The queue's conversion of a stored delivery error into the status recorded
// in failure reports, and its retry decision, for the same error value.
func harness_C16_toSMTPErr() {
	err, info := c16Chain(verifParam("depth", 3))
	r := toSMTPErr(err)
	if r == nil {
		verifFail("C16.toSMTPErr-nil")
	}
	cls := r.Code / 100
	if cls != 4 && cls != 5 {
		verifFail("C16.toSMTPErr-code-class")
	}
	if r.EnhancedCode[0] != cls {
		verifFail("C16.toSMTPErr-class-mismatch")
	}
	retried := exterrors.IsTemporaryOrUnspec(err)
	if retried && cls != 4 {
		verifFail("C16.queue-retries-but-5yz")
	}
	if !retried && cls != 5 {
		verifFail("C16.queue-gives-up-but-4yz")
	}
	if info.classified && retried != info.temporary {
		verifFail("C16.queue-classification-lost")
	}
	if !info.annotated {
		if r.Message != "Internal server error" {
			verifFail("C16.toSMTPErr-unannotated-discloses-detail")
		}
		verifCover("C16.q-unannotated")
	} else {
		verifCover("C16.q-annotated")
	}
	verifCover("C16.toSMTPErr-end")
}
