package smtpconn

import (
	"errors"
	"net"

	"github.com/emersion/go-smtp"
	"github.com/foxcpp/maddy/framework/exterrors"
	"github.com/foxcpp/maddy/framework/log"
)

func init() { verifRegister("harness_C16_clientErr", harness_C16_clientErr) }

// Replies of the next hop and network errors as the client-side code turns
// them into errors of its own (wrapClientErr): for every coherent reply of the
// next hop (basic code 400-599, enhanced code unset or of the same class) the
// resulting error is coherent, keeps the class (except the documented 552 ->
// 452 rewrite) and its retry classification agrees with its basic code.
func harness_C16_clientErr() {
	c := &C{Log: log.Logger{}, AddrInSMTPMsg: nondetBool("addrInMsg")}
	var in error
	inCode := 0
	switch nondetChoice("kind", 3) {
	case 0:
		code := nondetInt("code", 400, 599)
		e0 := nondetInt("enh0", 0, 5)
		e1 := nondetInt("enh1", 0, 7)
		e2 := nondetInt("enh2", 0, 30)
		verifAssume(verifOr(e0 == 0, e0 == code/100))
		in = &smtp.SMTPError{Code: code, EnhancedCode: smtp.EnhancedCode{e0, e1, e2}, Message: "reply of the next hop"}
		inCode = code
	case 1:
		in = &net.OpError{Op: "read", Err: errors.New("connection reset")}
	case 2:
		in = errors.New("unclassified failure")
	}
	out := c.wrapClientErr(in, "mx.example.org")
	var se *exterrors.SMTPError
	if !errors.As(out, &se) {
		verifCover("C16.clienterr-unannotated")
		return
	}
	if se.Code < 400 || se.Code > 599 {
		verifFail("C16.clienterr-code-out-of-range")
	}
	verifAssert(verifOr(se.EnhancedCode[0] == 0, se.EnhancedCode[0] == se.Code/100), "C16.clienterr-code-classes-differ")
	verifAssert(exterrors.IsTemporary(out) == (se.Code/100 == 4), "C16.clienterr-retry-decision-differs-from-reply-class")
	if inCode != 0 {
		verifAssert(verifOr(se.Code/100 == inCode/100, inCode == 552), "C16.clienterr-class-changed")
		verifCoverIf(inCode == 552, "C16.clienterr-552")
	}
	verifCover("C16.clienterr-annotated")
}
