package limits

import (
	"context"
	"fmt"
	"net"
	"sync"

	"github.com/foxcpp/maddy/framework/config"
)

func init() { verifRegister("harness_C11_group", harness_C11_group) }

// Concurrent deliveries through a real limits.Group configured through the
// real Init: at no time more than N holders per (scope, key); every permit is
// returned whatever the end stage (success, failed source/destination take,
// time-out); afterwards the full N can be acquired again.
func harness_C11_group() {
	nthreads := verifParam("threads", 2)
	limit := verifParam("limit", 1)
	// which scopes are configured (all 16 subsets)
	var children []config.Node
	scopes := []string{"all", "ip", "source", "destination"}
	on := map[string]bool{}
	mask := verifParam("scopes", 15) // bit i: scopes[i] configured (a concrete shape parameter)
	for i, s := range scopes {
		if mask&(1<<i) != 0 {
			on[s] = true
			children = append(children, config.Node{Name: s, Args: []string{"concurrency", fmt.Sprint(limit)}})
			if verifParam("double", 0) == 1 {
				// a second, weaker limit of the same scope (the scope's limiter becomes a combination of two)
				children = append(children, config.Node{Name: s, Args: []string{"concurrency", fmt.Sprint(limit + 1)}})
			}
		}
	}
	g := &Group{instName: "limits"}
	if err := g.Init(config.NewMap(nil, config.Node{Children: children})); err != nil {
		verifFail("C11.init-failed")
	}
	ips := []net.IP{net.IPv4(10, 0, 0, 1), net.IPv4(10, 0, 0, 2)}
	srcs := []string{"a.example.org", "b.example.org"}
	dsts := []string{"x.example.net", "y.example.net"}

	holders := map[string]int{}
	var mu sync.Mutex
	enter := func(scope, key string) {
		mu.Lock()
		holders[scope+"/"+key]++
		if on[scope] && holders[scope+"/"+key] > limit {
			verifFail("C11.limit-exceeded-" + scope)
		}
		mu.Unlock()
	}
	leave := func(scope, key string) {
		mu.Lock()
		holders[scope+"/"+key]--
		mu.Unlock()
	}
	var wg sync.WaitGroup
	ctx := context.Background()
	// hold=1: delivery 0 keeps its permits until delivery 1 has finished its own
	// acquisition attempt (so a conflicting delivery 1 runs into the limit time-out)
	hold := verifParam("hold", 0) == 1
	release := make(chan struct{})
	for t := 0; t < nthreads; t++ {
		wg.Add(1)
		ip, src, dst := 0, 0, 0
		if nondetBool(fmt.Sprintf("ip.%d", t)) {
			ip = 1
		}
		if nondetBool(fmt.Sprintf("src.%d", t)) {
			src = 1
		}
		if nondetBool(fmt.Sprintf("dst.%d", t)) {
			dst = 1
		}
		// the same IPv4 address arrives as 4 or 16 bytes depending on the listener
		myips := ips
		if verifParam("ipforms", 0) == 1 && nondetBool(fmt.Sprintf("ip4.%d", t)) {
			myips = []net.IP{ips[0].To4(), ips[1].To4()}
		}
		go func(t, ip, src, dst int) {
			ips := myips
			defer wg.Done()
			if hold && t == 1 {
				defer close(release)
			}
			if err := g.TakeMsg(ctx, ips[ip], srcs[src]); err != nil {
				verifCover("C11.takemsg-timeout")
				return
			}
			enter("all", "")
			enter("ip", ips[ip].String())
			enter("source", srcs[src])
			if err := g.TakeDest(ctx, dsts[dst]); err != nil {
				verifCover("C11.takedest-timeout")
				if hold && t == 0 {
					<-release
				}
			} else {
				enter("destination", dsts[dst])
				verifYield() // deliver
				if hold && t == 0 {
					<-release
				}
				leave("destination", dsts[dst])
				g.ReleaseDest(dsts[dst])
			}
			leave("source", srcs[src])
			leave("ip", ips[ip].String())
			leave("all", "")
			g.ReleaseMsg(ips[ip], srcs[src])
		}(t, ip, src, dst)
	}
	wg.Wait()
	// quiescence: the full N can be acquired again for every key, without waiting
	for k := 0; k < limit; k++ {
		if err := g.TakeMsg(ctx, ips[0], srcs[0]); err != nil {
			verifFail("C11.permit-not-returned-msg")
		}
		if err := g.TakeDest(ctx, dsts[0]); err != nil {
			verifFail("C11.permit-not-returned-dest")
		}
	}
	for k := 0; k < limit; k++ {
		g.ReleaseDest(dsts[0])
		g.ReleaseMsg(ips[0], srcs[0])
	}
	for k := 0; k < limit; k++ {
		if err := g.TakeMsg(ctx, ips[1], srcs[1]); err != nil {
			verifFail("C11.permit-not-returned-msg")
		}
		if err := g.TakeDest(ctx, dsts[1]); err != nil {
			verifFail("C11.permit-not-returned-dest")
		}
	}
	verifCover("C11.group-end")
}

func init() { verifRegister("harness_C11_dbg", harness_C11_dbg) }
func harness_C11_dbg() {
	g := &Group{instName: "limits"}
	children := []config.Node{{Name: "ip", Args: []string{"concurrency", "1"}}, {Name: "source", Args: []string{"concurrency", "1"}}}
	if err := g.Init(config.NewMap(nil, config.Node{Children: children})); err != nil {
		verifFail("init")
	}
	ctx := context.Background()
	ip0, ip1 := net.IPv4(10, 0, 0, 1), net.IPv4(10, 0, 0, 2)
	verifLog("ip strings", ip0.String(), ip1.String())
	if err := g.TakeMsg(ctx, ip0, "a.org"); err != nil {
		verifFail("first take")
	}
	err := g.TakeMsg(ctx, ip1, "a.org")
	verifLog("second take err", err != nil)
	g.ReleaseMsg(ip0, "a.org")
	err = g.TakeMsg(ctx, ip1, "b.org")
	verifLog("third take err", err != nil)
	if err != nil {
		verifFail("leak")
	}
}
