package limiters

import (
	"context"
	"fmt"
	"time"
)

func init() { verifRegister("harness_C11_buckets", harness_C11_buckets) }

// Bucket table driven beyond its capacity: operations never crash, the limit
// of every live bucket is respected, stale buckets make room.
func harness_C11_buckets() {
	ops := verifParam("ops", 5)
	bs := NewBucketSet(func() L { return NewSemaphore(1) }, time.Minute, verifParam("maxbuckets", 2))
	keys := []string{"k0", "k1", "k2", "k3"}
	held := map[string]int{}
	ctx, cancel := context.WithCancel(context.Background())
	cancel() // TakeContext never waits here: a full bucket answers with the context error
	for i := 0; i < ops; i++ {
		k := keys[nondetChoice(fmt.Sprintf("key%d", i), len(keys))]
		if nondetBool(fmt.Sprintf("release%d", i)) {
			if held[k] > 0 {
				bs.Release(k)
				held[k]--
			}
			continue
		}
		if nondetBool(fmt.Sprintf("sleep%d", i)) {
			time.Sleep(2 * time.Minute)
		}
		// a key whose single permit is held is tried as well: with the context
		// already cancelled the attempt must be refused (only if the bucket was
		// wrongly reaped and re-created does it find a free permit)
		if err := bs.TakeContext(ctx, k); err == nil {
			held[k]++
			if held[k] > 1 {
				verifFail("C11.bucket-limit-exceeded")
			}
			verifCover("C11.bucket-taken")
		} else {
			verifCover("C11.bucket-refused")
		}
	}
	verifCover("C11.buckets-end")
}
