package limiters

import (
	"context"
	"errors"
)

func init() { verifRegister("harness_C11_multilimit", harness_C11_multilimit) }

// c11FailL is a limiter that cannot be acquired (a rate limit whose bucket is
// empty, a time-out): Take answers false, TakeContext an error.
type c11FailL struct{ released int }

func (f *c11FailL) Take() bool                        { return false }
func (f *c11FailL) TakeContext(context.Context) error { return errors.New("limit time-out") }
func (f *c11FailL) Release()                          { f.released++ }
func (f *c11FailL) Close()                            {}

// Several limits in one scope (MultiLimit): when a later one cannot be
// acquired, every permit taken before it is returned; when all are acquired,
// Release returns each exactly once.
func harness_C11_multilimit() {
	n := verifParam("n", 3)
	failAt := nondetChoice("failAt", n+1) // n: nothing fails
	useCtx := nondetBool("useCtx")
	var sems []Semaphore
	fail := &c11FailL{}
	ml := &MultiLimit{}
	for i := 0; i < n; i++ {
		if i == failAt {
			ml.Wrapped = append(ml.Wrapped, fail)
			continue
		}
		s := NewSemaphore(1)
		sems = append(sems, s)
		ml.Wrapped = append(ml.Wrapped, s)
	}
	ok := false
	if useCtx {
		ok = ml.TakeContext(context.Background()) == nil
	} else {
		ok = ml.Take()
	}
	if ok != (failAt == n) {
		verifFail("C11.multilimit-verdict")
	}
	if !ok {
		for i, s := range sems {
			if len(s.c) != 0 {
				verifLog("limiter", i, "of the scope still holds a permit after the failed acquisition; failing limiter at", failAt)
				verifFail("C11.multilimit-permit-not-returned")
			}
		}
		if fail.released != 0 {
			verifFail("C11.multilimit-released-what-was-not-taken")
		}
		verifCover("C11.multilimit-failed")
		return
	}
	for _, s := range sems {
		if len(s.c) != 1 {
			verifFail("C11.multilimit-not-all-taken")
		}
	}
	ml.Release()
	for _, s := range sems {
		if len(s.c) != 0 {
			verifFail("C11.multilimit-permit-not-returned")
		}
	}
	verifCover("C11.multilimit-ok")
}
