package remote

import (
	"context"
	"fmt"
	"net"

	"github.com/emersion/go-message/textproto"
	"github.com/emersion/go-smtp"
	"github.com/foxcpp/maddy/framework/buffer"
	"github.com/foxcpp/maddy/framework/module"
	"github.com/foxcpp/maddy/internal/limits"
)

func init() { verifRegister("harness_C11_remote", harness_C11_remote) }

// Permit accounting for deliveries through the real remote target (world and
// connection model shared with the C05 harness): every TakeMsg / TakeDest is
// paired with exactly one ReleaseMsg / ReleaseDest under the same key, at
// whatever stage the delivery ends.

var c11r struct {
	held       map[string]int
	takeFail   int // 0 none, 1 TakeMsg times out, 2 TakeDest times out
	violations int
}

//verif:stub (*github.com/foxcpp/maddy/internal/limits.Group).TakeMsg @harness_C11_remote
func stubC11TakeMsg(g *limits.Group, ctx context.Context, addr net.IP, domain string) error {
	if c11r.takeFail == 1 {
		return context.DeadlineExceeded
	}
	c11r.held["msg|"+addr.String()+"|"+domain]++
	return nil
}

//verif:stub (*github.com/foxcpp/maddy/internal/limits.Group).ReleaseMsg @harness_C11_remote
func stubC11ReleaseMsg(g *limits.Group, addr net.IP, domain string) {
	c11Release("msg|" + addr.String() + "|" + domain)
}

//verif:stub (*github.com/foxcpp/maddy/internal/limits.Group).TakeDest @harness_C11_remote
func stubC11TakeDest(g *limits.Group, ctx context.Context, domain string) error {
	if c11r.takeFail == 2 {
		return context.DeadlineExceeded
	}
	c11r.held["dest|"+domain]++
	return nil
}

//verif:stub (*github.com/foxcpp/maddy/internal/limits.Group).ReleaseDest @harness_C11_remote
func stubC11ReleaseDest(g *limits.Group, domain string) {
	c11Release("dest|" + domain)
}

func c11Release(k string) {
	if c11r.held[k] == 0 {
		verifLog("release of a permit that is not held:", k)
		verifFail("C11.remote-permit-released-without-take")
	}
	c11r.held[k]--
}

func harness_C11_remote() {
	nmx := verifParam("nmx", 1)
	ndom := verifParam("ndom", 1)
	nmsg := verifParam("nmsg", 1)
	c05.enMTASTS, c05.enDANE, c05.enDNSSEC, c05.enLocal = false, false, false, true
	c05.minTLS, c05.minMX = module.TLSNone, module.MXNone
	c05.allowOverride = true
	c05.noObligation, c05.hopFaults, c05.plain = true, true, true
	c05World(nmx, ndom)
	rt := c05Target(true)
	c11r.held = map[string]int{}
	c11r.takeFail = nondetInt("takeFail", 0, 2)

	ctx := context.Background()
	c05.msgs = nil
	for i := 0; i < nmsg; i++ {
		c05.msgs = append(c05.msgs, c05Msg{})
		c05.cur = i
		meta := &module.MsgMetadata{ID: fmt.Sprintf("c11-%d", i), SMTPOpts: smtp.MailOptions{}}
		d, err := rt.Start(ctx, meta, "sender@src.example")
		if err != nil {
			verifCover("C11.remote-start-refused")
			continue
		}
		accepted := 0
		for _, dom := range c05.doms {
			if err := d.AddRcpt(ctx, "u@"+dom.name, smtp.RcptOptions{}); err == nil {
				accepted++
			}
		}
		if accepted > 0 && !nondetBool(fmt.Sprintf("abort%d", i)) {
			hdr := textproto.Header{}
			hdr.Add("Subject", "c11")
			if err := d.Body(ctx, hdr, buffer.MemoryBuffer{Slice: []byte("x\r\n")}); err == nil {
				d.Commit(ctx)
				verifCover("C11.remote-delivered")
			} else {
				d.Abort(ctx)
				verifCover("C11.remote-body-failed")
			}
		} else {
			d.Abort(ctx)
			verifCover("C11.remote-aborted")
		}
		// quiescence after every message: nothing is held
		for k, n := range c11r.held {
			if n != 0 {
				verifLog("permit", k, "still held after the delivery ended:", n)
				verifFail("C11.remote-permit-not-returned")
			}
		}
	}
	rt.Close()
	verifCover("C11.remote-end")
}
