package msgpipeline

import (
	"context"
	"errors"
	"fmt"
	"net"

	"github.com/emersion/go-message/textproto"
	"github.com/emersion/go-msgauth/authres"
	godmarc "github.com/emersion/go-msgauth/dmarc"
	"github.com/foxcpp/maddy/framework/exterrors"
	"github.com/foxcpp/maddy/framework/log"
	"github.com/foxcpp/maddy/framework/module"
)

func init() { verifRegister("harness_C07_dmarc", harness_C07_dmarc) }

// The fixed domain set with known organisational domains (relations are known
// by construction, not obtained from the public-suffix list):
//
//	example.org      organisational domain
//	sub.example.org  subdomain
//	sib.example.org  sibling (same organisational domain)
//	EXAMPLE.ORG      case variant of the organisational domain
//	org              public suffix
//	example.net      unrelated
var c07Domains = []string{"example.org", "sub.example.org", "sib.example.org", "EXAMPLE.ORG", "org", "example.net"}

func c07SameOrg(d string) bool {
	return verifOr(verifOr(d == c07Domains[0], d == c07Domains[1]), verifOr(d == c07Domains[2], d == c07Domains[3]))
}

// c07Same: case-insensitive identity with the From domain f (0 or 1).
func c07Same(f int, d string) bool {
	if f == 0 {
		return verifOr(d == c07Domains[0], d == c07Domains[3])
	}
	return d == c07Domains[1]
}

var c07Values = []string{"pass", "fail", "none", "neutral", "softfail", "temperror", "permerror"}

// lookup outcomes
const (
	luRecord = iota
	luEmpty
	luMultiple
	luNXDomain
	luServfail
	luCount
)

type c07Resolver struct {
	outcome map[string]int
	queried []string
	rec     *godmarc.Record
	recText string
}

var c07Cur *c07Resolver

func (r *c07Resolver) LookupTXT(ctx context.Context, name string) ([]string, error) {
	r.queried = append(r.queried, name)
	o, ok := r.outcome[name]
	if !ok {
		return nil, &net.DNSError{Err: "no such host", Name: name, IsNotFound: true}
	}
	switch o {
	case luRecord:
		return []string{"unrelated txt", r.recText}, nil
	case luEmpty:
		return nil, nil
	case luMultiple:
		return []string{r.recText, r.recText}, nil
	case luNXDomain:
		return nil, &net.DNSError{Err: "no such host", Name: name, IsNotFound: true}
	}
	return nil, &net.DNSError{Err: "server misbehaving", Name: name, IsTemporary: true}
}

// Under symgo the record text is an opaque marker and the parser is replaced
// by the symbolic record; natively the real text is parsed by the real parser.
//
//verif:stub github.com/emersion/go-msgauth/dmarc.Parse
func stubDMARCParse(txt string) (*godmarc.Record, error) {
	if c07Cur == nil || c07Cur.rec == nil {
		return nil, errors.New("model: no record")
	}
	cp := *c07Cur.rec
	return &cp, nil
}

// Formatting of the Authentication-Results field is not the subject here and
// would force every symbolic string: cut (recorded as a stub).
//
//verif:stub github.com/emersion/go-msgauth/authres.Format
func stubAuthresFormat(identity string, results []authres.Result) string {
	return identity + "; (results elided by the model)"
}

func harness_C07_dmarc() {
	ndkim := verifParam("ndkim", 1)
	// ---- From header ----
	f := nondetChoice("fromDomain", 2) // 0 = example.org, 1 = sub.example.org
	fromDomain := c07Domains[f]
	hdr := textproto.Header{}
	shape := nondetChoice("fromShape", verifParam("shapes", 4))
	switch shape {
	case 0:
		hdr.Add("From", "Author <author@"+fromDomain+">")
	case 1: // no author field
	case 2:
		hdr.Add("From", "a@"+fromDomain+", b@example.net")
	case 3:
		hdr.Add("From", "a@"+fromDomain)
		hdr.Add("From", "b@example.net")
	case 4:
		hdr.Add("From", "Group: a@"+fromDomain+", b@example.net;")
	case 5:
		hdr.Add("From", "not an address")
	}
	hdr.Add("Subject", "x")

	// ---- authentication results (domains and values are finite-alphabet
	// strings: they are forced only where the code looks at their bytes) ----
	type dk struct {
		val string
		dom string
	}
	var dkims []dk
	var results []authres.Result
	// lite: a reduced shape for the quick tier with two signatures (domains: exact,
	// subdomain, unrelated; relaxed alignment; record found at the From domain)
	lite := verifParam("lite", 0) == 1
	doms := c07Domains
	if lite {
		doms = []string{c07Domains[0], c07Domains[1], c07Domains[5]}
	}
	for i := 0; i < ndkim; i++ {
		d := nondetChoiceStr(fmt.Sprintf("dkimDomain%d", i), doms...)
		v := nondetChoiceStr(fmt.Sprintf("dkimValue%d", i), c07Values...)
		dkims = append(dkims, dk{v, d})
		results = append(results, &authres.DKIMResult{Value: authres.ResultValue(v), Domain: d})
	}
	spfDom := nondetChoiceStr("spfDomain", doms...)
	spfVal := nondetChoiceStr("spfValue", c07Values...)
	useHelo := verifParam("helo", 2) == 1 || (verifParam("helo", 2) == 2 && nondetBool("spfHelo"))
	spf := &authres.SPFResult{Value: authres.ResultValue(spfVal)}
	if useHelo {
		spf.Helo = spfDom
	} else {
		// the HELO name is arbitrary (the client picks it freely); it is not the
		// SPF identity when the reverse-path is not null
		spf.From = spfDom
		spf.Helo = nondetChoiceStr("heloName", doms...)
	}
	// SPF result position among the results is arbitrary
	if verifParam("spfFirst", 2) == 1 || (verifParam("spfFirst", 2) == 2 && nondetBool("spfFirst")) {
		results = append([]authres.Result{spf}, results...)
	} else {
		results = append(results, spf)
	}

	// ---- published policy ----
	adkim := nondetChoiceStr("adkim", "r", "s")
	aspf := nondetChoiceStr("aspf", "r", "s")
	if lite {
		verifAssume(adkim == "r")
		verifAssume(aspf == "r")
	}
	p := nondetChoiceStr("p", "none", "quarantine", "reject")
	sp := nondetChoiceStr("sp", "", "none", "quarantine", "reject")
	pct100 := verifParam("pct", 2) == 1 || (verifParam("pct", 2) == 2 && nondetBool("pct100"))
	rec := &godmarc.Record{DKIMAlignment: godmarc.AlignmentMode(adkim), SPFAlignment: godmarc.AlignmentMode(aspf),
		Policy: godmarc.Policy(p), SubdomainPolicy: godmarc.Policy(sp)}
	if pct100 {
		h := 100
		rec.Percent = &h
	}
	res := &c07Resolver{outcome: map[string]int{}, rec: rec}
	if verifSymbolic() {
		res.recText = "v=DMARC1; (symbolic record)"
	} else {
		res.recText = "v=DMARC1; p=" + p
		if sp != "" {
			res.recText += "; sp=" + sp
		}
		res.recText += "; adkim=" + adkim + "; aspf=" + aspf
		if pct100 {
			res.recText += "; pct=100"
		}
	}
	c07Cur = res
	luFrom := nondetInt("lookupFrom", 0, luCount-1) // the resolver's switch forks when (and only when) queried
	if lite {
		verifAssume(luFrom == 0)
	}
	res.outcome["_dmarc."+fromDomain+"."] = luFrom
	luOrg := luFrom
	if f == 1 {
		luOrg = nondetInt("lookupOrg", 0, luCount-1)
		res.outcome["_dmarc.example.org."] = luOrg
	}

	// ---- run the real code ----
	meta := &module.MsgMetadata{ID: "c07"}
	cr := newCheckRunner(meta, log.Logger{}, nil)
	cr.dmarcVerify = nil
	cr.doDMARC = true
	cr.dmarcVerify = newC07Verifier(res)
	cr.dmarcVerify.FetchRecord(context.Background(), hdr)
	cr.mergedRes.AuthResult = results
	err := cr.applyResults("mx.example.com", &hdr)
	cr.close()

	// ---- observe ----
	verdict := ""
	for _, r := range cr.mergedRes.AuthResult {
		if d, ok := r.(*authres.DMARCResult); ok {
			verdict = string(d.Value)
		}
	}
	refused := err != nil
	code := 0
	if refused {
		var se *exterrors.SMTPError
		if !errors.As(err, &se) {
			verifFail("C07.refusal-not-smtp-error")
		}
		code = se.Code
	}
	quarantined := meta.Quarantine

	// ---- specification ----
	if shape != 0 {
		// no or several author addresses never obtain a pass
		verifAssert(verdict != "pass", "C07.pass-without-single-author")
		verifCover("C07.bad-from")
		return
	}
	// which lookup decides
	temporaryLookup := luFrom == luServfail
	found, foundAtOrg := false, false
	if luFrom == luRecord {
		found = true
	} else if luFrom == luEmpty || luFrom == luNXDomain {
		if f == 1 {
			if luOrg == luServfail {
				temporaryLookup = true
			} else if luOrg == luRecord {
				found, foundAtOrg = true, true
			}
		}
	}
	if temporaryLookup {
		verifAssert(refused, "C07.temporary-lookup-failure-not-refused")
		verifAssert(code/100 == 4, "C07.temporary-lookup-failure-permanent-code")
		verifAssert(verdict != "pass", "C07.pass-without-policy")
		verifCover("C07.lookup-tempfail")
		return
	}
	if !found {
		verifAssert(!refused, "C07.refused-without-policy")
		verifAssert(!quarantined, "C07.quarantined-without-policy")
		verifAssert(verdict != "pass" && verdict != "fail", "C07.verdict-without-policy")
		verifCover("C07.no-policy")
		return
	}
	strictD, strictS := adkim == "s", aspf == "s"
	aligned := func(dom string, strict bool) bool {
		return verifOr(verifAnd(strict, c07Same(f, dom)), verifAnd(!strict, c07SameOrg(dom)))
	}
	dkimPass, dkimUndecided := false, false
	for _, d := range dkims {
		al := aligned(d.dom, strictD)
		dkimPass = verifOr(dkimPass, verifAnd(al, d.val == "pass"))
		dkimUndecided = verifOr(dkimUndecided, verifAnd(al, d.val == "temperror"))
	}
	spfAl := aligned(spfDom, strictS)
	spfPass := verifAnd(spfAl, spfVal == "pass")
	wantPass := verifOr(dkimPass, spfPass)
	undecided := verifAnd(!wantPass, verifOr(dkimUndecided, verifAnd(spfAl, spfVal == "temperror")))
	corner := verifAnd(verifAnd(!wantPass, !undecided), spfVal == "temperror") // temperror on a non-aligned identity: statement silent

	verifAssert(verifImplies(wantPass, verdict == "pass"), "C07.aligned-pass-not-pass")
	verifAssert(verifImplies(verdict == "pass", wantPass), "C07.pass-without-alignment")
	// published action for this domain
	policy := p
	useSP := verifAnd(foundAtOrg, sp != "")
	isReject := verifOr(verifAnd(useSP, sp == "reject"), verifAnd(!useSP, p == "reject"))
	isQuarantine := verifOr(verifAnd(useSP, sp == "quarantine"), verifAnd(!useSP, p == "quarantine"))
	_ = policy
	verifAssert(verifImplies(wantPass, verifAnd(!refused, !quarantined)), "C07.pass-but-acted")
	verifAssert(verifImplies(verifAnd(!wantPass, isReject), refused), "C07.reject-policy-not-refused")
	verifAssert(verifImplies(refused, verifAnd(!wantPass, isReject)), "C07.refused-without-reject-policy")
	verifAssert(verifImplies(verifAnd(!wantPass, isQuarantine), verifAnd(quarantined, !refused)), "C07.quarantine-policy-not-flagged")
	verifAssert(verifImplies(quarantined, verifAnd(!wantPass, isQuarantine)), "C07.quarantined-without-policy")
	verifAssert(verifImplies(verifAnd(refused, undecided), code/100 == 4), "C07.undecided-refused-with-permanent-code")
	verifAssert(verifImplies(verifAnd(refused, verifAnd(!undecided, !corner)), code/100 == 5), "C07.decided-refused-with-temporary-code")
	verifCoverIf(wantPass, "C07.pass")
	verifCoverIf(verifAnd(!wantPass, isReject), "C07.reject")
	verifCoverIf(verifAnd(!wantPass, isQuarantine), "C07.quarantine")
	verifCoverIf(undecided, "C07.undecided")
	verifCoverIf(foundAtOrg, "C07.org-policy")
	verifCover("C07.end")
}
