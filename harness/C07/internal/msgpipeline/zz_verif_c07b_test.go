package msgpipeline

import "github.com/foxcpp/maddy/internal/dmarc"

func newC07Verifier(r *c07Resolver) *dmarc.Verifier { return dmarc.NewVerifier(r) }
