package smtp

import (
	"fmt"
	"net"
	"net/textproto"
	"os"
	"strconv"
	"strings"
	"testing"
	"time"

	"github.com/emersion/go-smtp"
)

// TestVerifC03Discipline validates the model of go-smtp's calling discipline
// (c03Mirror / c03Step, an assumption of the C03 check) against the real
// pinned smtp.Server: every command sequence up to the given length is run
// twice on identical environments - once through c03Step, once as SMTP/LMTP
// text over TCP against smtp.Server with the real Endpoint as back end - and
// everything the C03 oracle observes must agree: which commands were accepted,
// the per-recipient replies, and per target the list of deliveries with their
// recipients, body count and final state.
func TestVerifC03Discipline(t *testing.T) {
	if os.Getenv("VERIF_DISCIPLINE") == "" {
		t.Skip("VERIF_DISCIPLINE not set")
	}
	maxLen, _ := strconv.Atoi(os.Getenv("VERIF_DISCIPLINE"))
	ops := []int{opMailOK, opMailUpper, opRcptT0, opRcptT1, opRcptRejected, opData, opDataBadHeader, opRset, opQuit}
	faults := []int{-1, 0*sitesPerTarget + siteStart, 0*sitesPerTarget + siteBody, siteCheckRcpt}
	modes := []c03Cfg{
		{withCheck: true, withMod: true},
		{withCheck: true, withMod: true, deferred: true},
		{withCheck: true, withMod: true, lmtp: true},
	}
	n, mismatches := 0, 0
	var seq []int
	var rec func(depth int)
	rec = func(depth int) {
		if depth > 0 {
			for _, cfg := range modes {
				for _, f := range faults {
					a := c03RunDirect(cfg, f, seq)
					b := c03RunWire(t, cfg, f, seq)
					n++
					if a != b {
						mismatches++
						if mismatches <= 10 {
							var names []string
							for _, o := range seq {
								names = append(names, c03OpNames[o])
							}
							t.Errorf("discipline model and smtp.Server disagree on %v (defer=%v lmtp=%v fault=%d)\n model: %s\n  wire: %s", names, cfg.deferred, cfg.lmtp, f, a, b)
						}
					}
				}
			}
		}
		if depth == maxLen || (depth > 0 && seq[depth-1] == opQuit) {
			return
		}
		for _, o := range ops {
			seq = append(seq, o)
			rec(depth + 1)
			seq = seq[:depth]
		}
	}
	rec(0)
	fmt.Printf("VERIF-DISCIPLINE-RESULT: sessions=%d mismatches=%d\n", n, mismatches)
}

func c03Summary(outcomes []string) string {
	var b strings.Builder
	b.WriteString(strings.Join(outcomes, " "))
	for _, tg := range c03.targets {
		fmt.Fprintf(&b, " | %s:", tg.name)
		for _, d := range tg.deliveries {
			fmt.Fprintf(&b, " {%v bodies=%d ok=%v state=%d}", d.rcpts, d.bodies, d.bodyOK, d.state)
		}
	}
	return b.String()
}

func c03SetFaults(f int) {
	c03.fA, c03.fB, c03.aOnce, c03.partialFirstFails = f, -1, false, false
}

func c03RunDirect(cfg c03Cfg, fault int, seq []int) string {
	c03SetFaults(fault)
	endp := c03Setup(cfg)
	s := c03NewSession(endp)
	m := &c03Mirror{open: true}
	var out []string
	for _, op := range seq {
		if !m.open {
			break
		}
		accepted := m.accepted
		r := c03Step(s, m, cfg.lmtp, op)
		switch {
		case op == opRset || op == opQuit:
			out = append(out, "-")
		case r.skipped:
			out = append(out, "no")
		case (op == opData || op == opDataBadHeader) && cfg.lmtp:
			var per []string
			for _, rc := range accepted {
				err := r.err
				if l := r.statuses.set[rc]; len(l) > 0 {
					err = nil
					for _, e := range l {
						if e != nil {
							err = e
						}
					}
				}
				per = append(per, yn(err == nil))
			}
			out = append(out, "["+strings.Join(per, ",")+"]")
		default:
			out = append(out, yn(r.err == nil))
		}
	}
	if m.open {
		s.Logout()
	}
	return c03Summary(out)
}

func yn(b bool) string {
	if b {
		return "yes"
	}
	return "no"
}

func c03RunWire(t *testing.T, cfg c03Cfg, fault int, seq []int) string {
	c03SetFaults(fault)
	endp := c03Setup(cfg)
	serv := smtp.NewServer(endp)
	serv.Domain = "mx.example.com"
	serv.LMTP = cfg.lmtp
	serv.AllowInsecureAuth = true
	serv.ReadTimeout = 5 * time.Second
	serv.WriteTimeout = 5 * time.Second
	endp.serv = serv
	ln, err := net.Listen("tcp", "127.0.0.1:0")
	if err != nil {
		t.Fatal(err)
	}
	done := make(chan struct{})
	go func() { serv.Serve(ln); close(done) }()
	defer func() {
		serv.Close()
		<-done
	}()
	nc, err := net.Dial("tcp", ln.Addr().String())
	if err != nil {
		t.Fatal(err)
	}
	tp := textproto.NewConn(nc)
	cmd := func(format string, args ...interface{}) int {
		if err := tp.PrintfLine(format, args...); err != nil {
			return 0
		}
		code, _, err := tp.ReadResponse(0)
		if err != nil && code == 0 {
			return 0
		}
		return code
	}
	if code, _, _ := tp.ReadResponse(220); code != 220 {
		t.Fatal("no greeting")
	}
	hello := "EHLO"
	if cfg.lmtp {
		hello = "LHLO"
	}
	if cmd("%s client.example", hello) != 250 {
		t.Fatal("hello refused")
	}
	var out []string
	var accepted []string
	open := true
	for _, op := range seq {
		if !open {
			break
		}
		switch op {
		case opMailOK, opMailUpper:
			out = append(out, yn(cmd("MAIL FROM:<%s>", c03Arg(op)) == 250))
		case opRcptT0, opRcptT1, opRcptRejected:
			ok := cmd("RCPT TO:<%s>", c03Arg(op)) == 250
			if ok {
				accepted = append(accepted, c03Arg(op))
			}
			out = append(out, yn(ok))
		case opData, opDataBadHeader:
			if cmd("DATA") != 354 {
				out = append(out, "no")
				break
			}
			w := tp.DotWriter()
			w.Write([]byte(c03Arg(op)))
			w.Close()
			if cfg.lmtp {
				var per []string
				for range accepted {
					code, _, _ := tp.ReadResponse(0)
					per = append(per, yn(code == 250))
				}
				out = append(out, "["+strings.Join(per, ",")+"]")
			} else {
				code, _, _ := tp.ReadResponse(0)
				out = append(out, yn(code == 250))
			}
			accepted = nil
		case opRset:
			cmd("RSET")
			accepted = nil
			out = append(out, "-")
		case opQuit:
			cmd("QUIT")
			open = false
			out = append(out, "-")
		}
	}
	nc.Close()
	// the server side notices the disconnect and logs the session out
	for i := 0; i < 400 && endp.ConnectionCount() > 0; i++ {
		time.Sleep(5 * time.Millisecond)
	}
	if endp.ConnectionCount() > 0 {
		return "server did not finish the session"
	}
	return c03Summary(out)
}
