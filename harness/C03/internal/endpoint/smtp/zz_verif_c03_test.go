package smtp

import (
	"context"
	"errors"
	"fmt"
	"io"
	"net"
	"runtime/trace"
	"strings"
	"time"

	"github.com/emersion/go-message/textproto"
	"github.com/emersion/go-smtp"
	"github.com/foxcpp/maddy/framework/buffer"
	"github.com/foxcpp/maddy/framework/config"
	"github.com/foxcpp/maddy/framework/dns"
	"github.com/foxcpp/maddy/framework/exterrors"
	"github.com/foxcpp/maddy/framework/log"
	"github.com/foxcpp/maddy/framework/module"
	"github.com/foxcpp/maddy/internal/auth"
	"github.com/foxcpp/maddy/internal/limits"
	"github.com/foxcpp/maddy/internal/modify"
	"github.com/foxcpp/maddy/internal/msgpipeline"
)

func init() { verifRegister("harness_C03_session", harness_C03_session) }

// ---------------------------------------------------------------------------
// fault plan: an operation at site s fails iff s is one of the (at most two)
// symbolic fault sites; faultOnce limits fault A to its first occurrence.

const (
	siteStart = iota
	siteAddRcpt
	siteBody
	siteCommit
	siteAbort
	sitesPerTarget
)
const (
	siteCheckInit = 2*sitesPerTarget + iota
	siteCheckConn
	siteCheckSender
	siteCheckRcpt
	siteCheckBody
	siteModInit
	siteModSender
	siteModRcpt
	siteModBody
	siteTakeMsg
	nSites
)

var c03 struct {
	fA, fB            int
	aOnce             bool
	aFired            bool
	commitFaults      int // failed Commit calls so far
	fired             int // injected failures so far
	partialFirstFails bool
	targets           [2]*c03Target
	all               []*c03Delivery
	permits           map[string]int
	violations        int
}

func c03Fail(site int) bool {
	if c03.aOnce && c03.aFired {
		if site == c03.fB {
			c03.fired++
			return true
		}
		return false
	}
	if verifOr(site == c03.fA, site == c03.fB) {
		if site == c03.fA {
			c03.aFired = true
		}
		c03.fired++
		return true
	}
	return false
}

func c03Err(what string) error {
	return &exterrors.SMTPError{Code: 451, EnhancedCode: exterrors.EnhancedCode{4, 0, 0}, Message: "injected: " + what}
}

// ---------------------------------------------------------------------------
// targets with a typestate monitor

const (
	dOpen = iota
	dCommitted
	dCommitFailed
	dAborted
)

type c03Target struct {
	name       string
	id         int
	partial    bool
	deliveries []*c03Delivery
}

// c03Partial is a delivery of a target that reports per-recipient results itself
type c03Partial struct{ *c03Delivery }

func (d c03Partial) BodyNonAtomic(ctx context.Context, sc module.StatusCollector, h textproto.Header, b buffer.Buffer) {
	d.use("BodyNonAtomic")
	d.bodies++
	failAll := c03Fail(d.t.id*sitesPerTarget + siteBody)
	for i, r := range d.rcpts {
		if failAll || (i == 0 && c03.partialFirstFails) {
			sc.SetStatus(r, c03Err(d.t.name+" body "+r))
			continue
		}
		d.okRcpts = append(d.okRcpts, r)
		d.bodyOK = true
		sc.SetStatus(r, nil)
	}
}

type c03Delivery struct {
	t        *c03Target
	state    int
	rcpts    []string
	bodies   int
	bodyOK   bool
	okRcpts  []string // partial deliveries: recipients whose body step succeeded
	terminal int      // Commit/Abort calls
}

func (t *c03Target) Name() string               { return "c03_target" }
func (t *c03Target) InstanceName() string       { return t.name }
func (t *c03Target) Init(cfg *config.Map) error { return nil }

func (t *c03Target) Start(ctx context.Context, m *module.MsgMetadata, from string) (module.Delivery, error) {
	if c03Fail(t.id*sitesPerTarget + siteStart) {
		return nil, c03Err(t.name + " start")
	}
	d := &c03Delivery{t: t}
	t.deliveries = append(t.deliveries, d)
	c03.all = append(c03.all, d)
	if t.partial {
		return c03Partial{d}, nil
	}
	return d, nil
}

func (d *c03Delivery) use(what string) {
	if d.state != dOpen {
		verifLog("target", d.t.name, what, "in state", d.state)
		verifFail("C03.delivery-used-after-close")
	}
}

func (d *c03Delivery) AddRcpt(ctx context.Context, to string, o smtp.RcptOptions) error {
	d.use("AddRcpt")
	if c03Fail(d.t.id*sitesPerTarget + siteAddRcpt) {
		return c03Err(d.t.name + " rcpt")
	}
	d.rcpts = append(d.rcpts, to)
	return nil
}

func (d *c03Delivery) Body(ctx context.Context, h textproto.Header, b buffer.Buffer) error {
	d.use("Body")
	d.bodies++
	if c03Fail(d.t.id*sitesPerTarget + siteBody) {
		return c03Err(d.t.name + " body")
	}
	d.bodyOK = true
	d.okRcpts = append([]string(nil), d.rcpts...)
	return nil
}

func (d *c03Delivery) Commit(ctx context.Context) error {
	if d.state == dCommitFailed || d.state == dOpen {
		// a second Commit after a failed one is still a second terminal call
	}
	d.use("Commit")
	d.terminal++
	if c03Fail(d.t.id*sitesPerTarget + siteCommit) {
		d.state = dCommitFailed
		c03.commitFaults++
		return c03Err(d.t.name + " commit")
	}
	d.state = dCommitted
	return nil
}

func (d *c03Delivery) Abort(ctx context.Context) error {
	if d.state == dCommitFailed {
		// rolling back after a failed Commit is tolerated
		d.state = dAborted
		return nil
	}
	d.use("Abort")
	d.terminal++
	d.state = dAborted
	if c03Fail(d.t.id*sitesPerTarget + siteAbort) {
		return c03Err(d.t.name + " abort")
	}
	return nil
}

// ---------------------------------------------------------------------------
// scripted check and modifier

type c03Check struct{ states, closed int }
type c03CheckState struct {
	c      *c03Check
	closed bool
}

func (c *c03Check) Name() string               { return "c03_check" }
func (c *c03Check) InstanceName() string       { return "chk" }
func (c *c03Check) Init(cfg *config.Map) error { return nil }
func (c *c03Check) CheckStateForMsg(ctx context.Context, m *module.MsgMetadata) (module.CheckState, error) {
	if c03Fail(siteCheckInit) {
		return nil, c03Err("check init")
	}
	c.states++
	return &c03CheckState{c: c}, nil
}
func c03Res(site int) module.CheckResult {
	if c03Fail(site) {
		return module.CheckResult{Reject: true, Reason: c03Err("check")}
	}
	return module.CheckResult{}
}
func (s *c03CheckState) CheckConnection(ctx context.Context) module.CheckResult {
	return c03Res(siteCheckConn)
}
func (s *c03CheckState) CheckSender(ctx context.Context, from string) module.CheckResult {
	return c03Res(siteCheckSender)
}
func (s *c03CheckState) CheckRcpt(ctx context.Context, to string) module.CheckResult {
	return c03Res(siteCheckRcpt)
}
func (s *c03CheckState) CheckBody(ctx context.Context, h textproto.Header, b buffer.Buffer) module.CheckResult {
	return c03Res(siteCheckBody)
}
func (s *c03CheckState) Close() error {
	if !s.closed {
		s.closed = true
		s.c.closed++
	}
	return nil
}

type c03Modifier struct{ states, closed int }
type c03ModState struct {
	m      *c03Modifier
	closed bool
}

func (m *c03Modifier) Name() string               { return "c03_modifier" }
func (m *c03Modifier) InstanceName() string       { return "mod" }
func (m *c03Modifier) Init(cfg *config.Map) error { return nil }
func (m *c03Modifier) ModStateForMsg(ctx context.Context, meta *module.MsgMetadata) (module.ModifierState, error) {
	if c03Fail(siteModInit) {
		return nil, c03Err("modifier init")
	}
	m.states++
	return &c03ModState{m: m}, nil
}
func (s *c03ModState) RewriteSender(ctx context.Context, from string) (string, error) {
	if c03Fail(siteModSender) {
		return "", c03Err("modifier sender")
	}
	return from, nil
}
func (s *c03ModState) RewriteRcpt(ctx context.Context, to string) ([]string, error) {
	if c03Fail(siteModRcpt) {
		return nil, c03Err("modifier rcpt")
	}
	return []string{to}, nil
}
func (s *c03ModState) RewriteBody(ctx context.Context, h *textproto.Header, b buffer.Buffer) error {
	if c03Fail(siteModBody) {
		return c03Err("modifier body")
	}
	return nil
}
func (s *c03ModState) Close() error {
	if !s.closed {
		s.closed = true
		s.m.closed++
	}
	return nil
}

// ---------------------------------------------------------------------------
// environment

var c03Chk *c03Check
var c03Mod *c03Modifier

//verif:stub github.com/foxcpp/maddy/framework/config/module.DeliveryTarget
func stubC03DeliveryTarget(globals map[string]interface{}, args []string, block config.Node) (module.DeliveryTarget, error) {
	switch args[0] {
	case "&t0":
		return c03.targets[0], nil
	case "&t1":
		return c03.targets[1], nil
	}
	return nil, errors.New("unknown target " + args[0])
}

//verif:stub github.com/foxcpp/maddy/framework/config/module.ModuleFromNode
func stubC03ModuleFromNode(ns string, args []string, inline config.Node, globals map[string]interface{}, iface interface{}) error {
	switch p := iface.(type) {
	case **msgpipeline.CheckGroup:
		*p = &msgpipeline.CheckGroup{L: []module.Check{c03Chk}}
		return nil
	case **modify.Group:
		*p = &modify.Group{Modifiers: []module.Modifier{c03Mod}}
		return nil
	}
	return errors.New("model: unexpected module kind")
}

//verif:stub github.com/foxcpp/maddy/framework/dns.DefaultResolver
func stubC03DefaultResolver() dns.Resolver { return nil }

//verif:stub github.com/foxcpp/maddy/framework/module.GenerateMsgID
func stubC03MsgID() (string, error) { return "c03id", nil }

//verif:stub runtime/trace.NewTask
func stubC03NewTask(ctx context.Context, name string) (context.Context, *trace.Task) { return ctx, nil }

// Permit accounting: TakeMsg/ReleaseMsg must pair up under the same keys
// (the limiter internals are C11's subject).
//
//verif:stub (*github.com/foxcpp/maddy/internal/limits.Group).TakeMsg
func stubC03TakeMsg(g *limits.Group, ctx context.Context, addr net.IP, domain string) error {
	if c03Fail(siteTakeMsg) {
		return context.DeadlineExceeded
	}
	c03.permits[addr.String()+"|"+domain]++
	return nil
}

//verif:stub (*github.com/foxcpp/maddy/internal/limits.Group).ReleaseMsg
func stubC03ReleaseMsg(g *limits.Group, addr net.IP, domain string) {
	k := addr.String() + "|" + domain
	if c03.permits[k] == 0 {
		verifLog("release of a permit that is not held:", k)
		verifFail("C03.permit-released-without-take")
	}
	c03.permits[k]--
}

type c03Auth struct{}

func (c03Auth) AuthPlain(u, p string) error {
	if u == "user" && p == "pass" {
		return nil
	}
	return module.ErrUnknownCredentials
}

type c03Statuses struct {
	set map[string][]error
}

func (s *c03Statuses) SetStatus(rcpt string, err error) {
	s.set[rcpt] = append(s.set[rcpt], err)
}

const (
	opMailOK    = iota
	opMailUpper // same sender, other spelling of the domain
	opMailBad   // non-ASCII without SMTPUTF8
	opRcptT0
	opRcptT1
	opRcptBoth
	opRcptRejected
	opRcptBad
	opData
	opDataBadHeader
	opDataLoop
	opRset
	opQuit
	opAuth
	opMailNull // the null reverse-path (bounces)
	opDataCut  // the connection is lost in the middle of the message data
	nOps
)

var c03OpNames = []string{"MAIL", "MAIL(upper)", "MAIL(bad)", "RCPT(t0)", "RCPT(t1)", "RCPT(both)", "RCPT(rejected)", "RCPT(bad)", "DATA", "DATA(bad header)", "DATA(loop)", "RSET", "QUIT", "AUTH", "MAIL(null)", "DATA(connection lost)"}

const c03Msg = "From: <a@src.example>\r\nSubject: c03\r\n\r\nbody\r\n"

// ---------------------------------------------------------------------------
// environment set-up shared by the symbolic harness and the native
// discipline test

type c03Cfg struct {
	deferred, lmtp, authReq, withCheck, withMod, partial bool
}

func c03Setup(cfg c03Cfg) *Endpoint {
	c03.all = nil
	c03.permits = map[string]int{}
	c03.aFired, c03.commitFaults, c03.fired = false, 0, 0
	c03.targets = [2]*c03Target{{name: "t0", id: 0, partial: cfg.partial}, {name: "t1", id: 1}}
	c03Chk, c03Mod = &c03Check{}, &c03Modifier{}
	if !verifSymbolic() {
		module.RegisterInstance(c03.targets[0], nil)
		module.RegisterInstance(c03.targets[1], nil)
		module.RegisterInstance(c03Chk, nil)
		module.RegisterInstance(c03Mod, nil)
	}
	var nodes []config.Node
	if cfg.withCheck {
		nodes = append(nodes, config.Node{Name: "check", Children: []config.Node{{Name: "&chk"}}})
	}
	if cfg.withMod {
		nodes = append(nodes, config.Node{Name: "modify", Children: []config.Node{{Name: "&mod"}}})
	}
	nodes = append(nodes,
		config.Node{Name: "destination", Args: []string{"a.example"}, Children: []config.Node{{Name: "deliver_to", Args: []string{"&t0"}}}},
		config.Node{Name: "destination", Args: []string{"b.example"}, Children: []config.Node{{Name: "deliver_to", Args: []string{"&t1"}}}},
		config.Node{Name: "destination", Args: []string{"ab.example"}, Children: []config.Node{{Name: "deliver_to", Args: []string{"&t0"}}, {Name: "deliver_to", Args: []string{"&t1"}}}},
		config.Node{Name: "default_destination", Children: []config.Node{{Name: "reject", Args: []string{"550", "5.1.1", "no such user"}}}},
	)
	pipeline, err := msgpipeline.New(nil, nodes)
	if err != nil {
		verifLog("pipeline", err.Error())
		verifFail("C03.harness-pipeline")
	}
	pipeline.Hostname = "mx.example.com"
	pipeline.FirstPipeline = true
	pipeline.Log = log.Logger{}

	endp := &Endpoint{
		name:                "smtp",
		pipeline:            pipeline,
		limits:              &limits.Group{},
		buffer:              autoBufferMode(256, ""), // the default buffering mode (RAM limit above every message of the harness)
		authAlwaysRequired:  cfg.authReq,
		lmtp:                cfg.lmtp,
		deferServerReject:   cfg.deferred,
		maxLoggedRcptErrors: 5,
		maxReceived:         1,
		maxHeaderBytes:      1 << 20,
		saslAuth:            auth.SASLAuth{Plain: []module.PlainAuth{c03Auth{}}},
		Log:                 log.Logger{},
	}
	if !verifSymbolic() {
		// natively: the real limiter with one permit per source and per
		// address; a permit that is not returned makes the probe after the
		// session fail, a release of a permit that is not held panics in the
		// semaphore
		mod, _ := limits.New("limits", "c03", nil, nil)
		if err := mod.Init(config.NewMap(nil, config.Node{Children: []config.Node{
			{Name: "source", Args: []string{"concurrency", "1"}},
			{Name: "ip", Args: []string{"concurrency", "1"}},
		}})); err != nil {
			panic(err)
		}
		endp.limits = mod.(*limits.Group)
	}
	return endp
}

// c03Mirror is the model of the go-smtp connection state, i.e. of the
// calling discipline of the pinned fork (conn.go): Mail is passed on also
// inside an open transaction, Rcpt only after an accepted Mail, Data only
// with at least one accepted recipient and always followed by Reset, nothing
// after Logout. It is validated against the real smtp.Server by
// TestVerifC03Discipline.
type c03Mirror struct {
	from     bool
	accepted []string
	open     bool
	authed   bool
}

type c03StepResult struct {
	skipped  bool // go-smtp answers by itself, the Session is not called
	err      error
	statuses *c03Statuses
}

func c03Arg(op int) string {
	switch op {
	case opMailOK:
		return "a@src.example"
	case opMailUpper:
		return "a@SRC.example"
	case opMailBad:
		return "ü@src.example"
	case opRcptT0:
		return "x@a.example"
	case opRcptT1:
		return "x@b.example"
	case opRcptBoth:
		return "x@ab.example"
	case opRcptRejected:
		return "x@r.example"
	case opRcptBad:
		return "ü@a.example"
	case opData:
		return c03Msg
	case opDataBadHeader:
		return "not a header line\r\n\r\nbody\r\n"
	case opDataLoop:
		return "Received: from a\r\nReceived: from b\r\n" + c03Msg
	}
	return ""
}

// c03Step performs one client command against the Session the way go-smtp does.
func c03Step(s *Session, m *c03Mirror, lmtp bool, op int) c03StepResult {
	switch op {
	case opMailOK, opMailUpper, opMailBad, opMailNull:
		err := s.Mail(c03Arg(op), &smtp.MailOptions{})
		if err == nil {
			m.from = true
		}
		return c03StepResult{err: err}
	case opRcptT0, opRcptT1, opRcptBoth, opRcptRejected, opRcptBad:
		if !m.from {
			return c03StepResult{skipped: true}
		}
		to := c03Arg(op)
		err := s.Rcpt(to, &smtp.RcptOptions{})
		if err == nil {
			m.accepted = append(m.accepted, to)
		}
		return c03StepResult{err: err}
	case opData, opDataBadHeader, opDataLoop:
		if !m.from || len(m.accepted) == 0 {
			return c03StepResult{skipped: true}
		}
		st := &c03Statuses{set: map[string][]error{}}
		var ret error
		if lmtp {
			ret = s.LMTPData(strings.NewReader(c03Arg(op)), st)
		} else {
			ret = s.Data(strings.NewReader(c03Arg(op)))
		}
		// deferred c.reset() after DATA, success or not
		s.Reset()
		m.from, m.accepted = false, nil
		return c03StepResult{err: ret, statuses: st}
	case opDataCut:
		if !m.from || len(m.accepted) == 0 {
			return c03StepResult{skipped: true}
		}
		// contract of go-smtp's data reader: when the connection ends before the
		// end-of-data mark, Read returns what arrived and then io.ErrUnexpectedEOF
		cut := io.MultiReader(strings.NewReader(c03Msg[:len(c03Msg)-3]), c03ErrReader{io.ErrUnexpectedEOF})
		st := &c03Statuses{set: map[string][]error{}}
		var ret error
		if lmtp {
			ret = s.LMTPData(cut, st)
		} else {
			ret = s.Data(cut)
		}
		// no reply reaches the client; the deferred reset and the end of the connection follow
		s.Reset()
		s.Logout()
		m.from, m.accepted, m.open = false, nil, false
		return c03StepResult{err: ret, statuses: st}
	case opRset:
		s.Reset()
		m.from, m.accepted = false, nil
	case opQuit:
		s.Logout()
		m.open = false
	case opAuth:
		err := s.AuthPlain("user", "pass")
		if err == nil {
			m.authed = true
		}
		return c03StepResult{err: err}
	}
	return c03StepResult{}
}

type c03ErrReader struct{ err error }

func (r c03ErrReader) Read([]byte) (int, error) { return 0, r.err }

func c03NewSession(endp *Endpoint) *Session {
	// NewSession without the go-smtp connection object
	s := endp.newSession(nil)
	s.connState = module.ConnState{Hostname: "client.example", RemoteAddr: &net.TCPAddr{IP: net.IPv4(10, 0, 0, 1), Port: 1234}, Proto: "ESMTP"}
	endp.sessionCnt.Add(1)
	return s
}

func harness_C03_session() {
	k := verifParam("k", 4)
	cfg := c03Cfg{
		deferred:  verifParam("defer", 0) == 1,
		lmtp:      verifParam("lmtp", 0) == 1,
		authReq:   verifParam("authreq", 0) == 1,
		withCheck: verifParam("check", 1) == 1,
		withMod:   verifParam("mod", 1) == 1,
		partial:   verifParam("partial", 0) == 1,
	}
	lmtp, authReq := cfg.lmtp, cfg.authReq
	nfaults := verifParam("faults", 1)
	opset := verifParam("opset", 0) // 0: core ops, 1: all ops

	c03.fA, c03.fB = -1, -1
	c03.aOnce = false
	if nfaults >= 1 {
		c03.fA = nondetInt("faultA", 0, nSites) // nSites = no fault
		if verifParam("once", 0) == 1 {
			c03.aOnce = nondetBool("faultAOnce")
		}
	}
	if nfaults >= 2 {
		c03.fB = nondetInt("faultB", 0, nSites)
		verifAssume(c03.fA < c03.fB || c03.fB == nSites)
	}
	c03.partialFirstFails = false
	if cfg.partial {
		c03.partialFirstFails = nondetBool("partialFirstFails")
		// targets that report per-recipient results finish their work in
		// BodyNonAtomic (remote, LMTP downstream): their Commit does not fail
		verifAssume(c03.fA != siteCommit && c03.fB != siteCommit)
	}
	endp := c03Setup(cfg)
	s := c03NewSession(endp)
	m := &c03Mirror{open: true}
	var hist []string
	firedAtTxnStart := 0 // injected failures before the current transaction began
	badSender := false   // the accepted MAIL of the current transaction carries an unacceptable sender (deferred mode)

	for step := 0; step < k && m.open; step++ {
		op := nondetInt(fmt.Sprintf("op%d", step), 0, nOps-1)
		op = verifConcretize(op)
		if opset == 0 && (op == opMailUpper || op == opRcptBad || op == opDataLoop || op == opAuth || op == opMailBad || op == opMailNull) {
			verifStop()
		}
		if !authReq && op == opAuth {
			verifStop()
		}
		// cut = 1: the connection may be lost in the middle of DATA (takes the
		// place of the malformed-header DATA in the command alphabet)
		if (op == opDataCut) != (verifParam("cut", 0) == 1 && (op == opDataCut || op == opDataBadHeader)) {
			verifStop()
		}
		hist = append(hist, c03OpNames[op])
		preOpen := len(c03.all)
		wasAuthed := m.authed
		accepted := m.accepted // recipients go-smtp recorded for this transaction
		committedBefore := 0
		for _, d := range c03.all {
			if d.state == dCommitted {
				committedBefore++
			}
		}
		faultsBefore := c03.commitFaults
		firedBefore := c03.fired

		r := c03Step(s, m, lmtp, op)
		if r.skipped {
			verifStop() // go-smtp refuses the command itself: same as not sending it
		}

		switch op {
		case opRset:
			firedAtTxnStart = c03.fired
		case opMailOK, opMailUpper, opMailBad, opMailNull:
			if r.err == nil {
				firedAtTxnStart = firedBefore // failures of this MAIL itself belong to the new transaction
				badSender = op == opMailBad
			}
			if authReq && !wasAuthed {
				if r.err == nil {
					verifFail("C03.mail-accepted-before-auth")
				}
				if len(c03.all) != preOpen {
					verifFail("C03.delivery-opened-before-auth")
				}
			}
		case opRcptRejected, opRcptBad:
			if r.err == nil {
				verifFail("C03.refusable-recipient-accepted")
			}
		case opRcptT0, opRcptT1, opRcptBoth:
			// a routable recipient is refused only for a cause that belongs to
			// this transaction: a failure injected since its MAIL command
			_ = firedBefore
			if r.err != nil && c03.fired == firedAtTxnStart && !badSender && !(authReq && !wasAuthed) {
				verifLog("trace", strings.Join(hist, " "), "reply", r.err.Error())
				verifFail("C03.recipient-refused-with-a-stale-reply")
			}
		case opDataCut:
			// the message never arrived completely: whatever the session
			// returned, nothing of it may have been committed
			committedNow := 0
			for _, d := range c03.all {
				if d.state == dCommitted {
					committedNow++
				}
			}
			if committedNow != committedBefore {
				verifLog("trace", strings.Join(hist, " "))
				verifFail("C03.message-cut-off-by-disconnect-committed")
			}
			verifCover("C03.data-cut")
		case opData, opDataBadHeader, opDataLoop:
			firedAtTxnStart = c03.fired
			ret, statuses := r.err, r.statuses
			committedNow := 0
			for _, d := range c03.all {
				if d.state == dCommitted {
					committedNow++
				}
			}
			commitStepFailed := c03.commitFaults != faultsBefore
			final := func(r string) error {
				if l := statuses.set[r]; len(l) > 0 {
					for _, e := range l {
						if e != nil {
							return e
						}
					}
					return nil
				}
				return ret
			}
			targetsOf := func(r string) []*c03Target {
				switch r {
				case "x@a.example":
					return []*c03Target{c03.targets[0]}
				case "x@b.example":
					return []*c03Target{c03.targets[1]}
				}
				return []*c03Target{c03.targets[0], c03.targets[1]}
			}
			committedFor := func(t *c03Target, r string) bool {
				if len(t.deliveries) == 0 {
					return false
				}
				d := t.deliveries[len(t.deliveries)-1]
				has := false
				for _, x := range d.okRcpts {
					if x == r {
						has = true
					}
				}
				return d.state == dCommitted && d.bodyOK && has
			}
			if !lmtp {
				if ret == nil {
					for _, r := range accepted {
						for _, t := range targetsOf(r) {
							if !committedFor(t, r) {
								verifLog("recipient", r, "target", t.name, "trace", strings.Join(hist, " "))
								verifFail("C03.success-reply-but-target-not-committed")
							}
						}
					}
					verifCover("C03.data-ok")
				} else {
					if !commitStepFailed && committedNow != committedBefore {
						verifLog("trace", strings.Join(hist, " "))
						verifFail("C03.failed-before-commit-but-target-committed")
					}
					verifCover("C03.data-failed")
				}
			} else {
				for _, r := range accepted {
					if r == "x@ab.example" {
						continue // replies of a recipient with two targets: typestate only
					}
					t := targetsOf(r)[0]
					if final(r) == nil {
						if !committedFor(t, r) {
							verifLog("recipient", r, "trace", strings.Join(hist, " "))
							verifFail("C03.lmtp-success-reply-but-target-not-committed")
						}
						verifCover("C03.lmtp-rcpt-ok")
					} else if !commitStepFailed && !t.partial {
						if len(t.deliveries) > 0 && t.deliveries[len(t.deliveries)-1].state == dCommitted {
							verifLog("recipient", r, "trace", strings.Join(hist, " "))
							verifFail("C03.lmtp-failure-reply-but-target-committed")
						}
						verifCover("C03.lmtp-rcpt-failed")
					}
				}
			}
		}
	}
	if m.open {
		// connection loss
		s.Logout()
	}
	c03EndOfSession(endp, strings.Join(hist, " "))
}

func c03EndOfSession(endp *Endpoint, hist string) {
	for _, d := range c03.all {
		if d.terminal == 0 {
			verifLog("target", d.t.name, "delivery left open; trace", hist)
			verifFail("C03.delivery-never-closed")
		}
		if d.terminal > 1 {
			verifLog("target", d.t.name, "terminal calls", d.terminal, "trace", hist)
			verifFail("C03.delivery-closed-twice")
		}
	}
	if !verifSymbolic() {
		ctx, cancel := context.WithTimeout(context.Background(), 300*time.Millisecond)
		for _, ip := range []net.IP{net.IPv4(10, 0, 0, 1), net.IPv4(127, 0, 0, 1)} {
			for _, dom := range []string{"src.example", "SRC.example", ""} {
				if err := endp.limits.TakeMsg(ctx, ip, dom); err != nil {
					verifLog("permit for", dom, "is still held after the session")
					verifFail("C03.permit-not-returned")
				}
				endp.limits.ReleaseMsg(ip, dom)
			}
		}
		cancel()
	}
	for key, n := range c03.permits {
		if n != 0 {
			verifLog("permit", key, "held", n, "trace", hist)
			verifFail("C03.permit-not-returned")
		}
	}
	if len(c03.all) > 0 {
		verifCover("C03.session-with-delivery")
	}
	verifCover("C03.session-end")
}
