#!/bin/bash
# tools/seedtest.sh <property> <seed-name> <worktree-with-SEED> <pkg-dir-for-demo> [extra test pkgs]
# Verifies a seeded change (existing tests pass with it, demo fails with it and passes without it),
# stores it under /verif/seeded/<seed-name>/ and runs the property's quick check against it.
set -u
P=$1; NAME=$2; WT=$3; PKGDIR=$4; shift 4
export GOFLAGS=-mod=mod GOPROXY=off GOSUMDB=off GOTOOLCHAIN=local
D=/verif/seeded/$NAME
mkdir -p $D
cp $WT/SEED/patch.diff $D/patch.diff
cp $WT/SEED/demo_test.go $D/demo_test.go
cp $WT/SEED/README.md $D/agent_README.md 2>/dev/null
cd $WT && git checkout -q -- . && git clean -fdq -e SEED
cp $D/demo_test.go $PKGDIR/zz_seed_demo_test.go
echo "--- demo on unmodified tree (must pass)"
go test -count=1 -run 'Seed' ./$PKGDIR/ 2>&1 | tail -3 | tee $D/demo_without.txt
git apply $D/patch.diff || { echo "PATCH DOES NOT APPLY"; exit 2; }
echo "--- build + existing tests with the change (must pass)"
rm $PKGDIR/zz_seed_demo_test.go
go build ./... 2>&1 | grep -v pam | grep -v "^#" | head -5
go test -count=1 ./$PKGDIR/ "$@" 2>&1 | tail -6 | tee $D/existing_with.txt
cp $D/demo_test.go $PKGDIR/zz_seed_demo_test.go
echo "--- demo with the change (must fail)"
go test -count=1 -run 'Seed' ./$PKGDIR/ 2>&1 | tail -8 | tee $D/demo_with.txt
git checkout -q -- . && git clean -fdq -e SEED
rm -rf /tmp/maddy-tests-*
echo "--- vcheck $P against the change"
cd /repo && git apply $D/patch.diff && cd /verif && (timeout 1500 ./vcheck $P 2>&1 | grep -v "^\s\s\s\|^$\|^goroutine\|^\t" | grep -v "^===\|^---\|^PASS\|^ok" | tail -8 | tee $D/vcheck.txt); git -C /repo checkout -q -- .
rm -rf /verif/replay
