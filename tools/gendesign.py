#!/usr/bin/env python3
"""Assemble /verif/DESIGN.md from design/head.md, the check configurations,
the seeded-change records and design/tail.md."""
import json, os, glob

V = os.path.dirname(os.path.dirname(os.path.abspath(__file__)))
props = {}
for l in open(os.path.join(V, "properties.jsonl")):
    p = json.loads(l)
    props[p["id"]] = p

def bullets(title, items):
    if not items:
        return ""
    out = "* **%s**\n" % title
    for i in items:
        out += "  * %s\n" % i
    return out

def fmt_bounds(b):
    out = ""
    for tier in ("quick", "thorough"):
        if tier in b and b[tier]:
            out += "* **Bounds (%s):** " % tier + "; ".join("%s: %s" % (k, v) for k, v in b[tier].items()) + "\n"
    return out

sec4 = "## 4. Per-property checks\n\nGenerated from `checks/<ID>.json` (the same files `vcheck` executes). For each check:\nwhat is decided, the bounds of the quick and thorough tiers, the assumptions (stubs and contracts), what is\noutside the claim, how counterexamples are replayed. Quick wall times are on the 16-core sandbox.\n\n"
for cid in sorted(props):
    path = os.path.join(V, "checks", cid + ".json")
    title = props[cid]["title"]
    if not os.path.exists(path):
        continue
    c = json.load(open(path))
    if "manifest" not in c:
        continue
    m = c["manifest"]
    sec4 += "### %s — %s\n\n" % (cid, title)
    sec4 += "* **Decided:** %s\n" % m["level_text"]
    if m.get("level_note"):
        sec4 += "* **Notes:** %s\n" % m["level_note"]
    sec4 += "* **Technique:** %s\n" % m["technique"]
    sec4 += fmt_bounds(c.get("bounds", {}))
    fl = c.get("flags") or {}
    if fl:
        sec4 += "* **Engine flags:** " + ", ".join("%s=%s" % kv for kv in fl.items()) + "\n"
    pk = []
    for g in c["groups"]:
        hs = sorted({j["harness"] for j in g.get("jobs_quick", []) + g.get("jobs_thorough", [])})
        pk.append("`%s` (%s; replay: %s; jobs quick/thorough: %d/%d)" % (g["pkg"].replace("github.com/foxcpp/maddy/", ""), ", ".join(hs), g.get("replay", "native"), len(g.get("jobs_quick", [])), len(g.get("jobs_thorough", g.get("jobs_quick", [])))))
    sec4 += bullets("Harnesses", pk)
    sec4 += bullets("Assumptions (stubs, contracts)", c.get("assumptions", []))
    sec4 += bullets("Outside the claim", c.get("outside", []))
    sec4 += "\n"

sec8 = "## 8. Seeded changes\n\nEach change was written by a fresh sub-agent that saw only the property text and a scratch worktree, compiles,\nkeeps the existing tests of the touched packages green, needs something specific to manifest, and comes with a\ndemonstration test that passes without and fails with it (`seeded/<name>/`: `patch.diff`, `demo_test.go`,\n`meta.json`, recorded outputs). I re-ran every claim (`tools/seedtest.sh`) before keeping a change. "
metas = []
for mp in sorted(glob.glob(os.path.join(V, "seeded", "*", "meta.json"))):
    m = json.load(open(mp))
    m["_name"] = os.path.basename(os.path.dirname(mp))
    metas.append(m)
missed = [m for m in metas if m.get("history", "").upper().startswith("MISSED") or "miss" in m.get("history", "")[:60].lower()]
notcaught = [m for m in metas if m.get("caught_by", "").startswith("NOT CAUGHT") or "NOT by the quick tier" in m.get("caught_by", "")]
sec8 += "%d changes; %d are caught by the registered quick checks now, %d %s not (caught by the thorough tier only, or outside the stated bounds: %s); %d were **missed at first** and led to a stronger check (history column).\n\n" % (len(metas), len(metas) - len(notcaught), len(notcaught), "is" if len(notcaught) == 1 else "are", ", ".join("`%s`" % m["_name"] for m in notcaught) or "-", len(missed) - len(notcaught))
sec8 += "| change | breaks | needs | caught by | history |\n|---|---|---|---|---|\n"
for m in metas:
    sec8 += "| `%s` | %s | %s | %s | %s |\n" % (m["_name"], m.get("breaks", "").replace("|", "/"), m.get("needs", "").replace("|", "/"), m.get("caught_by", "").replace("|", "/"), m.get("history", "caught at first run").replace("|", "/"))
sec8 += "\nApply a change with `git -C /repo apply seeded/<name>/patch.diff`, run `./vcheck <ID>`, undo with `git -C /repo checkout -- .`.\n\n"

head = open(os.path.join(V, "design", "head.md")).read()
tail = open(os.path.join(V, "design", "tail.md")).read()
a, b = tail.split("<<SECTION8>>")
open(os.path.join(V, "DESIGN.md"), "w").write(head + sec4 + "---------------------------------------------------------------------------\n\n" + a + sec8 + b)
print("DESIGN.md written: %d checks, %d seeded changes" % (sec4.count("### C"), len(metas)))
