#!/usr/bin/env python3
"""Regenerate /verif/MANIFEST.json from checks/*.json (key "manifest") and na.json."""
import json, os, glob
V = os.path.dirname(os.path.dirname(os.path.abspath(__file__)))
props = [json.loads(l)["id"] for l in open(os.path.join(V, "properties.jsonl"))]
na = json.load(open(os.path.join(V, "checks", "na.json")))
checks = []
claimed = set()
for p in props:
    f = os.path.join(V, "checks", p + ".json")
    if not os.path.exists(f):
        continue
    c = json.load(open(f))
    m = c.get("manifest")
    if not m:
        continue
    claimed.add(p)
    checks.append({
        "property_id": p,
        "quick_cmd": "./vcheck %s --tier quick" % p,
        "thorough_cmd": "./vcheck %s --tier thorough" % p,
        "evidence_file": "/verif/evidence/%s.json" % p,
        "replay_cmd_template": "./vcheck --replay {path}",
        "engine": "symgo",
        "level_claimed": {"category": "model_checking", "text": m["level_text"], "design_ref": m.get("design_ref", "DESIGN.md §4 " + p)},
        "level_note": m["level_note"],
        "technique": m.get("technique", "bounded symbolic execution of the real functions' go/ssa, feasibility and assertions decided by z3 (SMT-LIB2), counterexamples replayed natively"),
    })
man = {
    "version": 1,
    "setup_cmd": "cd /verif/engine && GOFLAGS=-mod=mod GOPROXY=off GOSUMDB=off GOTOOLCHAIN=local go build -o /verif/bin/symgo ./cmd/symgo",
    "hooks": {"guard": "verif", "enable": "none needed: harnesses are injected by go/packages Overlay (symbolic run) and go test -overlay (native replay); /repo is not modified by the checks",
              "baseline_off_cmd": "cd /repo && go test -vet=off -count=1 -timeout 25m ./...", "source_commits": [], "add_only": True},
    "engines": [{"name": "symgo", "path": "/verif/engine", "serves_properties": sorted(claimed),
                 "kind_free_text": "symbolic executor for go/ssa (real code of /repo's working tree, re-loaded on every run) emitting SMT-LIB2 to z3 5.1.0; forking by decision-prefix re-execution; green threads with delay-bounded scheduling; native replay of every counterexample"}],
    "checks": checks,
    "notes": "See DESIGN.md. Exit codes of ./vcheck: 0 held / only known findings, 1 reproduced new violation, 3 inconclusive (never with a VIOLATION line).",
    "not_applicable": [{"property_id": p, "reason": na.get(p, "check not built yet; see DESIGN.md")} for p in props if p not in claimed],
}
json.dump(man, open(os.path.join(V, "MANIFEST.json"), "w"), indent=1)
print("claimed:", sorted(claimed))
